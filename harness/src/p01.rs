//! C01 — the export tool writes exactly the model JSON to standard output.
//! Runs the real binaries (built from /repo's working tree by the check) on project directories and
//! compares exit status / stdout / -o file with what the library yields in process.
use crate::hproj::{self, Src};
use crate::{corpus, rng::Rng, Args, Batch, Case};
use bemodel::Model;
use serde_json::{json, Value};
use std::convert::TryFrom;
use std::path::{Path, PathBuf};
use std::process::{Command, Stdio};

fn fnv_bytes(b: &[u8]) -> u64 {
    let mut h = 0xcbf29ce484222325u64;
    for x in b {
        h ^= *x as u64;
        h = h.wrapping_mul(0x100000001b3);
    }
    // never 0: 0 stands for "no model"
    h | 1
}

fn bins() -> PathBuf {
    PathBuf::from(std::env::var("VERIF_BINS").unwrap_or_else(|_| "/verif/harness/target-bins/debug".to_string()))
}

fn copy_dir(src: &Path, dst: &Path, only_ctehexml: bool) {
    std::fs::create_dir_all(dst).unwrap();
    if let Ok(rd) = std::fs::read_dir(src) {
        for e in rd.filter_map(|e| e.ok()) {
            let p = e.path();
            if p.is_file() {
                let is_cx = p.extension().map_or(false, |x| x == "ctehexml");
                if only_ctehexml && !is_cx {
                    continue;
                }
                let _ = std::fs::copy(&p, dst.join(p.file_name().unwrap()));
            }
        }
    }
}

fn ctehexml_in(dir: &Path) -> Option<PathBuf> {
    let mut v: Vec<PathBuf> = std::fs::read_dir(dir).ok()?.filter_map(|e| e.ok()).map(|e| e.path()).filter(|p| p.extension().map_or(false, |x| x == "ctehexml")).collect();
    v.sort();
    v.into_iter().next()
}

enum Lib {
    Ok(u64),
    Err(String),
    Panic(String),
}
impl Lib {
    fn term(&self) -> String {
        match self {
            Lib::Ok(j) => format!("(LOk {}%N)", j),
            Lib::Err(_) => "LErr".into(),
            Lib::Panic(_) => "LPanic".into(),
        }
    }
    fn js(&self) -> Value {
        match self {
            Lib::Ok(_) => json!("converted"),
            Lib::Err(e) => json!({"error": e.chars().take(160).collect::<String>()}),
            Lib::Panic(p) => json!({"panic": p}),
        }
    }
}

fn model_digest(m: &Model) -> u64 {
    fnv_bytes(m.as_json().unwrap_or_default().as_bytes())
}

/// (docs, model digest): docs = 0 no JSON document on stdout, 1 exactly one JSON document and nothing else, 2 otherwise
fn classify_stdout(out: &str) -> (u64, u64, String) {
    let t = out.trim();
    if t.is_empty() {
        return (0, 0, String::new());
    }
    if serde_json::from_str::<Value>(t).is_ok() {
        let d = Model::from_json(t).map(|m| model_digest(&m)).unwrap_or(0);
        return (1, d, String::new());
    }
    // something else is there: is a JSON object hidden in it?
    let mut pos = 0usize;
    let head: String = t.chars().take(60).collect();
    for line in t.split_inclusive('\n') {
        if line.starts_with('{') {
            let mut it = serde_json::Deserializer::from_str(&t[pos..]).into_iter::<Value>();
            if let Some(Ok(v)) = it.next() {
                if v.is_object() {
                    let d = Model::from_json(&v.to_string()).map(|m| model_digest(&m)).unwrap_or(0);
                    return (2, d, head);
                }
            }
        }
        pos += line.len();
    }
    (0, 0, head)
}

fn run_bin(bin: &str, args: &[&str]) -> (i64, String) {
    match Command::new(bins().join(bin)).args(args).stdin(Stdio::null()).stderr(Stdio::null()).output() {
        Ok(o) => (o.status.code().map(|c| c as i64).unwrap_or(-1), String::from_utf8_lossy(&o.stdout).to_string()),
        Err(_) => (-2, String::new()),
    }
}

fn exit_n(e: i64) -> u64 {
    // killed by a signal (abort) or not started: any non-zero number
    if e < 0 {
        255
    } else {
        e as u64
    }
}

pub fn run(a: &Args) -> Batch {
    let mut r = Rng::new(a.seed);
    let scratch = PathBuf::from(&a.out).join("dirs");
    let _ = std::fs::remove_dir_all(&scratch);
    std::fs::create_dir_all(&scratch).unwrap();
    // (label, dir, has a project)
    let mut dirs: Vec<(String, PathBuf)> = vec![];
    let shipped = corpus::project_dirs();
    for d in &shipped {
        dirs.push((format!("shipped {}", d.file_name().unwrap().to_string_lossy()), d.clone()));
    }
    let mut k = 0usize;
    let mut fresh = |k: &mut usize| {
        *k += 1;
        scratch.join(format!("d{}", k))
    };
    // variations of the shipped projects
    let extra_blocks = ["\"ZZ VERIF MAT\" = MATERIAL\n    TYPE              = PROPERTIES\n    THICKNESS         =          0.075\n    CONDUCTIVITY      =              1.25\n    DENSITY           =           1234\n    SPECIFIC-HEAT     =           1000\n    ..\n",
        "\"ZZ Sombra\" = BUILDING-SHADE\n      BULB-TRA = \"Default.bulb\"\n      BULB-REF = \"Default.bulb\"\n      TRAN     =              0\n      REFL     =            0.7\n      X        = 100.000000\n      Y        = 100.000000\n      Z        = 0.000000\n      HEIGHT   = 2.000000\n      WIDTH    = 3.000000\n      TILT     = 90.000000\n      AZIMUTH  = 180.000000\n           ..\n"];
    let nvar = a.n;
    for i in 0..nvar {
        let d = &shipped[(i / 5 + i) % shipped.len()];
        let name = d.file_name().unwrap().to_string_lossy().to_string();
        let dst = fresh(&mut k);
        match i % 5 {
            0 => {
                copy_dir(d, &dst, true);
                dirs.push((format!("{} with the .ctehexml only", name), dst));
            }
            4 => {
                // general data at their blank values: what the JSON leaves out must load back as what the
                // conversion had (a project without a name)
                copy_dir(d, &dst, false);
                if let Some(cx) = ctehexml_in(&dst) {
                    if let Ok(t) = std::fs::read_to_string(&cx) {
                        if let (Some(a), Some(b)) = (t.find("<nomPro>"), t.find("</nomPro>")) {
                            if a < b {
                                // no name at all, or a long one full of two-byte characters (whatever is done with
                                // a name - cut, padded, quoted - meets a character boundary or its middle)
                                let long_a = "ñ".repeat(60);
                                let long_b = format!("a{}", "ñ".repeat(60));
                                let names = ["", "   ", "\n", long_a.as_str(), long_b.as_str(), "Edificio de oficinas en la avenida de Cádiz, bloque 3º \"B\""];
                                let blank = names[(i / 5) % names.len()];
                                let _ = std::fs::write(&cx, format!("{}<nomPro>{}{}", &t[..a], blank, &t[b..]));
                            }
                        }
                    }
                }
                dirs.push((format!("{} with another project name (none, or long and not ASCII)", name), dst));
            }
            1 | 2 => {
                copy_dir(d, &dst, false);
                if let Some(cx) = ctehexml_in(&dst) {
                    if let Ok(t) = std::fs::read_to_string(&cx) {
                        let src = Src::Ctehexml(t);
                        let mut bdl = src.bdl().trim_end().to_string();
                        bdl.push('\n');
                        bdl.push_str(extra_blocks[i % 2]);
                        let _ = std::fs::write(&cx, src.with_bdl(&bdl).text());
                    }
                }
                dirs.push((format!("{} with an added block", name), dst));
            }
            _ => {
                // project file cut in the middle of the BDL text
                copy_dir(d, &dst, false);
                if let Some(cx) = ctehexml_in(&dst) {
                    if let Ok(t) = std::fs::read_to_string(&cx) {
                        if let Some((s, e)) = hproj::bdl_range(&t) {
                            let mut cut = s + (r.below(e - s));
                            while !t.is_char_boundary(cut) {
                                cut -= 1;
                            }
                            let _ = std::fs::write(&cx, &t[..cut]);
                        }
                    }
                }
                dirs.push((format!("{} truncated", name), dst));
            }
        }
    }
    // directories without a project
    let e1 = fresh(&mut k);
    std::fs::create_dir_all(&e1).unwrap();
    dirs.push(("empty directory".into(), e1));
    let e2 = fresh(&mut k);
    std::fs::create_dir_all(&e2).unwrap();
    let _ = std::fs::write(e2.join("KyGananciasSolares.txt"), "nada\n");
    let _ = std::fs::write(e2.join("notas.txt"), "{\"meta\": 1}\n");
    dirs.push(("directory with result files but no project".into(), e2));
    dirs.push(("directory that does not exist".into(), scratch.join("missing")));
    dirs.push(("parent of the shipped projects".into(), corpus::repo().join("hulc_tests/tests")));

    // ---------- runs ----------
    struct Job {
        label: String,
        dir: PathBuf,
        extra: bool,
    }
    let mut jobs = vec![];
    for (l, d) in &dirs {
        for extra in [false, true] {
            jobs.push(Job { label: l.clone(), dir: d.clone(), extra });
        }
    }
    // the library in process (sequential: it may print), the binaries in parallel
    let libs: Vec<Lib> = jobs
        .iter()
        .map(|j| {
            let d = j.dir.to_string_lossy().to_string();
            let ex = j.extra;
            match crate::guarded(std::panic::AssertUnwindSafe(move || hulc2model::collect_hulc_data(&d, ex, ex).map(|m| model_digest(&m)).map_err(|e| e.to_string()))) {
                Ok(Ok(j)) => Lib::Ok(j),
                Ok(Err(e)) => Lib::Err(e),
                Err(p) => Lib::Panic(p),
            }
        })
        .collect();
    let outs: Vec<(i64, String)> = {
        let nthreads = 16;
        let jobs_ref: Vec<(String, bool)> = jobs.iter().map(|j| (j.dir.to_string_lossy().to_string(), j.extra)).collect();
        let jobs_ref = std::sync::Arc::new(jobs_ref);
        let hs: Vec<_> = (0..nthreads)
            .map(|t| {
                let jr = jobs_ref.clone();
                std::thread::spawn(move || {
                    let mut res = vec![];
                    for (i, (d, ex)) in jr.iter().enumerate() {
                        if i % nthreads != t {
                            continue;
                        }
                        let o = if *ex { run_bin("hulc2model", &["--use-extra", d]) } else { run_bin("hulc2model", &[d]) };
                        res.push((i, o));
                    }
                    res
                })
            })
            .collect();
        let mut all: Vec<(usize, (i64, String))> = hs.into_iter().flat_map(|h| h.join().unwrap_or_default()).collect();
        all.sort_by_key(|x| x.0);
        all.into_iter().map(|x| x.1).collect()
    };
    let mut cases = vec![];
    let mut nconv = 0usize;
    let mut nfail = 0usize;
    let mut npanic = 0usize;
    for ((j, lib), (exit, out)) in jobs.iter().zip(&libs).zip(&outs) {
        let (docs, md, head) = classify_stdout(out);
        match lib {
            Lib::Ok(_) => nconv += 1,
            Lib::Err(_) => nfail += 1,
            Lib::Panic(_) => npanic += 1,
        }
        cases.push(Case {
            term: format!("Cli {} {}%N {}%N {}%N", lib.term(), exit_n(*exit), docs, md),
            post: String::new(),
            json: json!({"kind": "hulc2model", "dir": j.label, "path": j.dir.to_string_lossy(), "use_extra": j.extra, "library": lib.js(), "exit": exit,
                          "stdout_bytes": out.len(), "stdout_docs": docs, "stdout_starts_with": head}),
            nontrivial: !matches!(lib, Lib::Panic(_)),
        });
    }
    // no argument at all
    {
        let (exit, out) = run_bin("hulc2model", &[]);
        let (docs, _, head) = classify_stdout(&out);
        cases.push(Case {
            term: format!("NoArg {}%N {}%N", exit_n(exit), docs),
            post: String::new(),
            json: json!({"kind": "hulc2model without arguments", "exit": exit, "stdout_bytes": out.len(), "stdout_starts_with": head}),
            nontrivial: true,
        });
    }
    // thor FILE -o OUT -r RES
    let mut nthor = 0usize;
    for (l, d) in &dirs {
        let cx = match ctehexml_in(d) {
            Some(c) => c,
            None => continue,
        };
        nthor += 1;
        let outp = scratch.join(format!("thor{}.json", nthor));
        let resp = scratch.join(format!("thor{}_res.json", nthor));
        let cxs = cx.to_string_lossy().to_string();
        let cxs2 = cxs.clone();
        let lib = match crate::guarded(std::panic::AssertUnwindSafe(move || {
            hulc::ctehexml::parse_with_catalog_from_path(&cxs2).map_err(|e| e.to_string()).and_then(|d| Model::try_from(&d).map_err(|e| e.to_string())).map(|m| model_digest(&m))
        })) {
            Ok(Ok(j)) => Lib::Ok(j),
            Ok(Err(e)) => Lib::Err(e),
            Err(p) => Lib::Panic(p),
        };
        // every second run writes over an existing, longer file (a previous export)
        let preexisting = nthor % 2 == 1;
        if preexisting {
            let _ = std::fs::write(&outp, format!("{{\"previous\": \"{}\"}}\n", "x".repeat(3_000_000)));
            let _ = std::fs::write(&resp, format!("{{\"previous\": \"{}\"}}\n", "x".repeat(3_000_000)));
        }
        let (exit, _) = run_bin("thor", &[&cxs, "-o", &outp.to_string_lossy(), "-r", &resp.to_string_lossy()]);
        let file = std::fs::read_to_string(&outp).ok();
        let fd = file.as_ref().map(|t| {
            // exactly one JSON document that loads as a model
            if serde_json::from_str::<Value>(t.trim()).is_ok() {
                Model::from_json(t).map(|m| model_digest(&m)).unwrap_or(0)
            } else {
                0
            }
        });
        cases.push(Case {
            term: format!("Thor {} {}%N {}", lib.term(), exit_n(exit), match fd { Some(x) => format!("(Some {}%N)", x), None => "None".into() }),
            post: String::new(),
            json: json!({"kind": "thor -o", "dir": l, "file": cxs, "library": lib.js(), "exit": exit, "out_file_bytes": file.map(|f| f.len()), "out_file_existed_and_was_longer": preexisting}),
            nontrivial: matches!(lib, Lib::Ok(_)),
        });
        let _ = std::fs::remove_file(&outp);
        let _ = std::fs::remove_file(&resp);
    }
    let _ = std::fs::remove_dir_all(&scratch);
    Batch {
        imports: "From Coq Require Import NArith List.\nFrom CTE Require Import Model.Cli.".into(),
        case_ty: "c01case".into(),
        agree: "agree_C01".into(),
        cases,
        impl_findings: vec![],
        rule: "directories = the shipped HULC projects (VyP and GT) + copies with only the .ctehexml, with an unrelated MATERIAL / BUILDING-SHADE block appended, or truncated inside the BDL text + directories without a project (empty, result files only, missing, parent directory); each x {default, --use-extra} through the hulc2model binary and, where a .ctehexml exists, through thor -o -r (every second time over an existing, longer output file); the binaries are built from /repo's working tree (dev profile); the library result is collect_hulc_data / parse_with_catalog_from_path + Model::try_from in process; non-trivial = the library did not crash".into(),
        stats: json!({"directories": dirs.len(), "runs_hulc2model": jobs.len() + 1, "runs_thor": nthor, "library_converted": nconv, "library_error": nfail, "library_crashed": npanic}),
    }
}
