//! C06 — opaque U-values after EN ISO 6946 / 13370 / 13789.
use crate::{coq, corpus, gen, props, rng::Rng, Args, Batch, Case};
use bemodel::*;
use serde_json::json;

fn fin(x: Option<f32>) -> Option<f32> {
    x.filter(|v| v.is_finite())
}

pub fn one_case(m: &Model, origin: &str, stats: &mut std::collections::BTreeMap<String, usize>) -> Option<Case> {
    coq::reset_ids();
    let mt = coq::model(m);
    let ind = crate::guarded(std::panic::AssertUnwindSafe(|| m.energy_indicators())).ok()?;
    let vent = crate::guarded(std::panic::AssertUnwindSafe(|| m.global_ventilation_rate())).ok()?;
    let chardim: Vec<(Uuid, Option<f32>)> =
        m.spaces.iter().map(|s| (s.id, crate::guarded(std::panic::AssertUnwindSafe(|| s.slab_char_dim(&m.walls, &m.spaces))).ok().flatten().filter(|x| x.is_finite()))).collect();
    let us: Vec<(Uuid, Option<f32>)> = m.walls.iter().map(|w| (w.id, fin(crate::guarded(std::panic::AssertUnwindSafe(|| w.u_value(m))).ok().flatten()))).collect();
    for w in &m.walls {
        *stats.entry(format!("walls_{}", w.bounds)).or_default() += 1;
    }
    *stats.entry("walls_with_u".into()).or_default() += us.iter().filter(|x| x.1.is_some()).count();
    let term = format!(
        "(mkC06 {}\n {}\n {} {}\n {})",
        mt,
        props::eprops(&ind.props),
        coq::list(&chardim, |(i, c)| format!("({}, {})", coq::id(*i), coq::optq(c))),
        coq::optq(&fin(Some(vent))),
        coq::list(&us, |(i, u)| format!("({}, {})", coq::id(*i), coq::optq(u)))
    );
    let ground = m.walls.iter().filter(|w| w.bounds == BoundaryType::GROUND).count();
    Some(Case {
        post: "Goal True. cert_case @K @C. exact I. Qed.".into(),
        term,
        json: json!({"origin": origin, "model": serde_json::to_value(m).unwrap(),
                     "u_values": us.iter().map(|(i, u)| (i.to_string(), *u)).collect::<std::collections::HashMap<_, _>>(),
                     "char_dims": chardim.iter().map(|(i, u)| (i.to_string(), *u)).collect::<std::collections::HashMap<_, _>>(), "global_ventilation_rate": format!("{}", vent)}),
        nontrivial: ground > 0 && us.iter().filter(|x| x.1.is_some()).count() >= 3,
    })
}

/// thin, poorly insulated constructions so that surface resistances and constants matter at two decimals
fn thin_constructions(r: &mut Rng, m: &mut Model) {
    for c in m.cons.wallcons.iter_mut() {
        if r.chance(1, 2) {
            c.layers.truncate(1);
            for l in c.layers.iter_mut() {
                l.e = r.grid(0.005, 0.05, 0.005);
            }
        }
    }
}

pub fn run(a: &Args) -> Batch {
    let mut r = Rng::new(a.seed ^ 0x06);
    let mut cases = vec![];
    let mut stats = std::collections::BTreeMap::<String, usize>::new();
    for (name, m) in corpus::shipped_models() {
        if let Some(c) = one_case(&m, &name, &mut stats) {
            cases.push(c);
        }
    }
    let cfg = gen::GenCfg { max_spaces: 5, shades: false, ..Default::default() };
    for i in 0..a.n {
        let mut rr = r.fork(i as u64);
        let mut m = gen::gen_model(&mut rr, &cfg);
        match i % 6 {
            0 | 1 => thin_constructions(&mut rr, &mut m),
            2 => {
                // basements: buried spaces with ground walls and slabs, perimeter insulation
                for s in m.spaces.iter_mut() {
                    s.z = -rr.grid(0.25, 4.0, 0.25);
                }
                for w in m.walls.iter_mut() {
                    if rr.chance(1, 2) {
                        w.bounds = BoundaryType::GROUND;
                    }
                }
                m.meta.d_perim_insulation = rr.grid(0.0, 2.0, 0.1);
                m.meta.rn_perim_insulation = rr.grid(0.0, 3.0, 0.1);
            }
            3 => {
                // partitions towards unconditioned / uninhabited neighbours, ventilation per space or global
                for s in m.spaces.iter_mut() {
                    if rr.chance(1, 2) {
                        s.kind = *rr.pick(&[SpaceType::UNCONDITIONED, SpaceType::UNINHABITED]);
                        s.n_v = if rr.chance(1, 2) { Some(rr.grid(0.0, 3.0, 0.1)) } else { None };
                    }
                }
                let ids: Vec<Uuid> = m.spaces.iter().map(|s| s.id).collect();
                for w in m.walls.iter_mut() {
                    if rr.chance(1, 2) {
                        w.bounds = BoundaryType::INTERIOR;
                        w.next_to = Some(*rr.pick(&ids));
                    }
                }
            }
            4 => {
                gen::break_links(&mut rr, &mut m, 1, 8);
            }
            _ => {}
        }
        if let Some(c) = one_case(&m, &format!("gen seed={} i={}", a.seed, i), &mut stats) {
            cases.push(c);
        }
    }
    Batch {
        imports: "From Coq Require Import ZArith NArith QArith Reals List.\nFrom Interval Require Import Tactic.\nFrom CTE Require Import Base.Num Model.BModel Model.Props Model.Geometry Model.UValue Model.UValueR.".into(),
        case_ty: "c06_case".into(),
        agree: "agree_C06".into(),
        cases,
        impl_findings: vec![],
        rule: "shipped model files + generated models: random layer stacks incl. resistance-only and zero-conductivity materials, thin poorly insulated constructions, four boundary kinds x all tilts (incl. odd ones) x conditioned / unconditioned / uninhabited / missing neighbours, ventilation per space or building-wide, buried depths 0..4 m, perimeter insulation, several ground floors per space, broken links; every wall's U-value is compared: rational kinds by vm_compute, EN ISO 13370 slab and basement-wall values by an interval certificate per wall; non-trivial = at least one ground-contact wall and three U-values; distinct by content hash".into(),
        stats: json!(stats),
    }
}
