//! C18 — the BDL block parser recovers every value written in the file.
//! Cases: the text of real files (as shipped and re-printed in another layout) and documents printed
//! from random abstract descriptions; `hulc::bdl::build_blocks` is compared in Coq with the model's
//! `build_blocks`, and (for printed documents) in Rust with the abstract description.
use crate::hproj;
use crate::{coq, rng::Rng, Args, Batch, Case};
use hulc::bdl::{build_blocks, BdlBlock, BdlBlockType};
use serde_json::{json, Value};

/// the text as a Coq list of string literals, one per LF-separated line
pub fn clines(text: &str) -> String {
    format!("[{}]", text.split('\n').map(cstr).collect::<Vec<_>>().join(";\n "))
}

pub fn cstr(s: &str) -> String {
    format!("\"{}\"", s.replace('"', "\"\""))
}

/// attribute values through the public getters (the value type itself is not exported)
#[derive(Debug, Clone, PartialEq)]
pub enum V {
    Number(f32),
    String(String),
}
pub fn vals(b: &BdlBlock) -> Vec<(String, V)> {
    b.attrs
        .0
        .keys()
        .map(|k| {
            (
                k.clone(),
                match b.attrs.get_f32(k) {
                    Ok(x) => V::Number(x),
                    Err(_) => V::String(b.attrs.get_str(k).unwrap_or_default()),
                },
            )
        })
        .collect()
}

fn ival(v: &V) -> String {
    match v {
        V::String(s) => format!("IStr {}", cstr(s)),
        V::Number(x) => {
            if x.is_nan() {
                "INan".into()
            } else if x.is_infinite() {
                format!("IInf {}", coq::b(*x < 0.0))
            } else {
                format!("INum {}", coq::q(*x))
            }
        }
    }
}

pub fn impl_term(text: &str) -> (String, usize, Option<Vec<BdlBlock>>) {
    let t = text.to_string();
    match crate::guarded(std::panic::AssertUnwindSafe(move || build_blocks(&t).map_err(|e| e.to_string()))) {
        Ok(Ok(bs)) => {
            let items: Vec<String> = bs
                .iter()
                .map(|b| {
                    let attrs: Vec<String> = vals(b).iter().map(|(k, v)| format!("({}, {})", cstr(k), ival(v))).collect();
                    format!(
                        "mkIB {}%N {} {} [{}]",
                        b.btype as u8,
                        cstr(&b.name),
                        match &b.parent {
                            Some(p) => format!("(Some {})", cstr(p)),
                            None => "None".into(),
                        },
                        attrs.join("; ")
                    )
                })
                .collect();
            (format!("IOk [{}]", items.join(";\n ")), 0, Some(bs))
        }
        Ok(Err(_)) => ("IErr".into(), 1, None),
        Err(_) => ("IPanic".into(), 2, None),
    }
}

fn case_of(text: &str, js: Value, nontrivial: bool) -> Case {
    let (it, _, _) = impl_term(text);
    Case { term: format!("CBdl (mkC18 {}\n ({}))", clines(text), it), post: String::new(), json: js, nontrivial }
}

// ---------- abstract documents and their printer ----------
#[derive(Clone, Debug)]
pub enum AVal {
    /// numeric token exactly as written
    Num(String),
    /// bare word (YES, NO, FRACTION ...)
    Word(String),
    /// quoted string
    Quoted(String),
    /// parenthesised list, one string per printed line
    List(Vec<String>),
}
#[derive(Clone, Debug)]
pub struct ABlock {
    pub name: String,
    pub ty: &'static str,
    pub attrs: Vec<(String, AVal)>,
}

pub const KEYWORDS: [&str; 53] = [
    "FLOOR", "ZONE", "SPACE", "UNDERGROUND-WALL", "UNDERGROUND-FLOOR", "INTERIOR-WALL", "EXTERIOR-WALL", "WINDOW", "ROOF", "DOOR", "THERMAL-BRIDGE", "CONSTRUCTION", "MATERIAL", "NAME-FRAME",
    "GLASS-TYPE", "LAYERS", "GAP", "BUILDING-SHADE", "POLYGON", "RUN-PERIOD-PD", "BUILD-PARAMETERS", "DAY-SCHEDULE-PD", "WEEK-SCHEDULE-PD", "SCHEDULE-PD", "SCHEDULE-DAY", "SCHEDULE-WEEK",
    "SYSTEM-CONDITIONS", "SPACE-CONDITIONS", "DEFECTOS", "GENERAL-DATA", "WORK-SPACE", "AUX-LINE", "PARTELIDER", "DESCRIPTION-CONDICTION", "DESCRIPTION", "SYSTEM", "PUMP", "CIRCULATION-LOOP",
    "CHILLER", "BOILER", "DW-HEATER", "HEAT-REJECTION", "ELEC-GENERATOR", "GROUND-LOOP-HX", "ELEC-METER", "FUEL-METER", "MASTER-METERS", "PLANE", "LOADS-REPORT", "SYSTEMS-REPORT", "PLANT-REPORT",
    "REPORT-BLOCK", "HOURLY-REPORT",
];

fn gen_name(r: &mut Rng) -> String {
    const FIRST: &[&str] = &["P01", "E02", "Muro", "Cubierta", "Forjado", "Vidrio", "Cámara", "ventana", "PT", "Sombra", "X", "m", "Teja cerámica", "FU Entrevigado", "h", "Zona-1", "a_b"];
    const REST: &[&str] = &["_E01", "_PE003", " de aire", "-porcelana", " (25+5)", "_V", " 0.1-0.2", "ñ", " Gris claro", "_Pol2", " 2", ".5 cm", "1e3", "+", "/", ":"];
    let mut s = r.pick(FIRST).to_string();
    for _ in 0..r.below(3) {
        s.push_str(*r.pick(REST));
    }
    s
}

fn gen_key(r: &mut Rng) -> String {
    const K: &[&str] = &[
        "TYPE", "THICKNESS", "CONDUCTIVITY", "DENSITY", "SPECIFIC-HEAT", "X", "Y", "Z", "AZIMUTH", "TILT", "HEIGHT", "WIDTH", "POLYGON", "CONSTRUCTION", "LOCATION", "NEXT-TO", "MULTIPLIER", "GROUP",
        "NAME", "NAME_CALENER", "LIBRARY", "UTIL", "V1", "V2", "V3", "V4", "VALUES", "DAY-SCHEDULES", "MATERIAL", "LAYERS", "GLASS-TYPE", "FRAME-WIDTH", "SHADING-COEF", "AIR-CHANGES/HR", "C-SUB-TYPE",
        "THICKNESS_CHANGE", "porcentajeIncrementoU", "transmisividadJulio", "EEGeneradaAutoconsumida", "BULB-TRA", "MONTH", "THRU",
    ];
    r.pick(K).to_string()
}

pub fn gen_num(r: &mut Rng) -> String {
    const N: &[&str] = &[
        "0", "1", "0.075", "1000", "12.5", "-3.25", "+4", ".5", "5.", "1e20", "-1e20", "1e+30", "-7.430936e-07", "1.2E+01", "4.0E-02", "1E3", "2.5e-3", "00012", "-0", "3.4028235e38", "1e-45", "0.1",
        "16777217", "1.00000001", "9.999999e-1", "123456789.125", "1E-3", "6.02E23",
    ];
    if r.chance(1, 3) {
        format!("{}", r.f(-500.0, 500.0))
    } else {
        r.pick(N).to_string()
    }
}

fn gen_val(r: &mut Rng) -> AVal {
    const W: &[&str] = &["YES", "NO", "FRACTION", "PROPERTIES", "SHADING-COEF", "TOP", "BOTTOM", "SPACE-V1", "CONDITIONED", "Default.bulb", "infx", "nano", "e5", "1x", "--1", "1e", "..5"];
    const Q: &[&str] = &[
        "Default.bulb", "Dobles bajo emisivos 0.1-0.2 en posición vertical", "", "a = b", "0", "12.5", "P01_E01", "asfalto.bmp", "(entre paréntesis)", "$ no es comentario", "x y  z", "Vidrios", "1E3",
        "inf", "NaN",
    ];
    match r.below(10) {
        0..=3 => AVal::Num(gen_num(r)),
        4 | 5 => {
            let w = r.pick(W).to_string();
            // a bare word holding ".." would end the block
            AVal::Word(if w.contains("..") { "YES".into() } else { w })
        }
        6 | 7 => AVal::Quoted(r.pick(Q).to_string()),
        _ => {
            // a list: numbers or quoted names, over one or several lines
            let n = 1 + r.below(5);
            let names = r.chance(1, 2);
            // (a '+' or '$' opening a continuation line would make it a LIDER header / comment line)
            let items: Vec<String> = (0..n).map(|_| if names { format!("\"{}\"", gen_name(r)) } else { gen_num(r).trim_start_matches('+').to_string() }).collect();
            match r.below(4) {
                0 => AVal::List(vec![format!("( {} )", items.join(", "))]),
                1 => {
                    // one item per line, closing parenthesis on the last item
                    let mut lines: Vec<String> = items.iter().map(|i| format!("{},", i)).collect();
                    let last = lines.len() - 1;
                    lines[last] = format!("{})", items[last]);
                    lines[0] = format!("( {}", lines[0]);
                    AVal::List(lines)
                }
                2 => {
                    // opening and closing parentheses on their own lines
                    let mut lines = vec!["(".to_string()];
                    lines.extend(items.iter().enumerate().map(|(i, x)| if i + 1 < items.len() { format!("{},", x) } else { x.clone() }));
                    lines.push(")".to_string());
                    AVal::List(lines)
                }
                _ => AVal::List(vec![format!("({})", items.join(","))]),
            }
        }
    }
}

pub fn gen_doc(r: &mut Rng) -> Vec<ABlock> {
    let n = 1 + r.below(40);
    (0..n)
        .map(|_| {
            let ty = *r.pick(&KEYWORDS);
            let na = r.below(9);
            ABlock { name: gen_name(r), ty, attrs: (0..na).map(|_| (gen_key(r), gen_val(r))).collect() }
        })
        .collect()
}

pub struct Layout {
    pub crlf: bool,
    /// 0 = none, 1 = loose LIDER attributes before the general data block, 2 = the general data block first, nothing before it
    pub preamble: u8,
    pub noise: bool,
}

fn ws(r: &mut Rng) -> String {
    const I: &[&str] = &["", " ", "  ", "    ", "\t", "      ", " \t "];
    r.pick(I).to_string()
}

pub fn print_doc(r: &mut Rng, doc: &[ABlock], lay: &Layout) -> String {
    let mut lines: Vec<String> = vec![];
    let noise = |r: &mut Rng, lines: &mut Vec<String>| {
        if lay.noise {
            match r.below(8) {
                0 => lines.push(String::new()),
                1 => lines.push(format!("{}$ --- comentario = \"x\" ..", ws(r))),
                2 => lines.push("   ".to_string()),
                3 => lines.push("$".to_string()),
                _ => {}
            }
        }
    };
    if lay.preamble > 0 {
        lines.push("+ cabecera de LIDER".into());
        if lay.preamble == 1 {
            lines.push(format!("CAMBIO = SI{}", ws(r)));
            lines.push("CAMBIO-CALENER = NO".into());
            lines.push("EEGeneradaAutoconsumida        = \"0\"".into());
            lines.push("CONTRIBUCIONRESACS             =           1800".into());
        }
        lines.push("TEMPLARY = algo".into());
        lines.push("\"DATOS GENERALES\" = GENERAL-DATA".into());
        lines.push("    ENGLISH           =  NO".into());
        lines.push("    ..".into());
    }
    for b in doc {
        noise(r, &mut lines);
        let eq = |r: &mut Rng| format!("{}={}", ws(r), ws(r));
        lines.push(format!("{}\"{}\"{}{}{}", ws(r), b.name, eq(r), b.ty, ws(r)));
        for (k, v) in &b.attrs {
            noise(r, &mut lines);
            match v {
                AVal::Num(t) | AVal::Word(t) => lines.push(format!("{}{}{}{}{}", ws(r), k, eq(r), t, ws(r))),
                AVal::Quoted(t) => lines.push(format!("{}{}{}\"{}\"{}", ws(r), k, eq(r), t, ws(r))),
                AVal::List(ls) => {
                    lines.push(format!("{}{}{}{}{}", ws(r), k, eq(r), ls[0], ws(r)));
                    for l in &ls[1..] {
                        lines.push(format!("{}{}{}", ws(r), l, ws(r)));
                    }
                }
            }
        }
        lines.push(format!("{}..{}", ws(r), ws(r)));
    }
    if lay.noise && r.chance(1, 3) {
        lines.push("END ..".into());
        lines.push("COMPUTE ..".into());
        lines.push("STOP ..".into());
    }
    let eol = if lay.crlf { "\r\n" } else { "\n" };
    let mut out = lines.join(eol);
    out.push_str(eol);
    out
}

/// what the abstract description says the parse must give: (type, name, parent, sorted attributes)
fn expected(doc: &[ABlock], preamble: u8) -> Vec<(usize, String, Option<String>, Vec<(String, Result<f32, String>)>)> {
    let mut out = vec![];
    let typed = |t: &str| -> Result<f32, String> {
        match t.parse::<f32>() {
            Ok(x) => Ok(x),
            Err(_) => Err(t.trim().to_string()),
        }
    };
    if preamble > 0 {
        let mut a = std::collections::BTreeMap::new();
        if preamble == 1 {
            a.insert("CAMBIO".to_string(), Err("SI".to_string()));
            a.insert("CAMBIO-CALENER".to_string(), Err("NO".to_string()));
            a.insert("EEGeneradaAutoconsumida".to_string(), Ok(0.0));
            a.insert("CONTRIBUCIONRESACS".to_string(), Ok(1800.0));
        }
        out.push((32, "PARTELIDER".to_string(), None, a.into_iter().collect()));
        out.push((29, "DATOS GENERALES".to_string(), None, vec![("ENGLISH".to_string(), Err("NO".to_string()))]));
    }
    let (mut floor, mut space, mut wall) = ("Default".to_string(), String::new(), String::new());
    for b in doc {
        let ti = KEYWORDS.iter().position(|k| *k == b.ty).unwrap();
        let parent = match b.ty {
            "FLOOR" => {
                floor = b.name.clone();
                None
            }
            "SPACE" => {
                space = b.name.clone();
                Some(floor.clone())
            }
            "EXTERIOR-WALL" | "INTERIOR-WALL" | "ROOF" | "UNDERGROUND-WALL" | "UNDERGROUND-FLOOR" => {
                wall = b.name.clone();
                Some(space.clone())
            }
            "CONSTRUCTION" | "WINDOW" | "DOOR" => Some(wall.clone()),
            _ => None,
        };
        let mut a = std::collections::BTreeMap::new();
        for (k, v) in &b.attrs {
            let tv = match v {
                AVal::Num(t) | AVal::Word(t) | AVal::Quoted(t) => typed(t),
                AVal::List(ls) => typed(&ls.join("")),
            };
            a.insert(k.clone(), tv);
        }
        out.push((ti, b.name.clone(), parent, a.into_iter().collect()));
    }
    out
}

fn same_as_expected(bs: &[BdlBlock], exp: &[(usize, String, Option<String>, Vec<(String, Result<f32, String>)>)]) -> Option<String> {
    if bs.len() != exp.len() {
        return Some(format!("{} blocks parsed, {} written", bs.len(), exp.len()));
    }
    for (b, (ti, name, parent, attrs)) in bs.iter().zip(exp) {
        if b.btype as usize != *ti || &b.name != name || &b.parent != parent {
            return Some(format!("block '{}' ({}) parent {:?}: parsed as '{}' ({:?}) parent {:?}", name, KEYWORDS[*ti], parent, b.name, b.btype, b.parent));
        }
        if b.attrs.0.len() != attrs.len() {
            return Some(format!("block '{}': {} attributes parsed, {} written", name, b.attrs.0.len(), attrs.len()));
        }
        for ((k, v), (ek, ev)) in vals(b).iter().zip(attrs) {
            let ok = k == ek
                && match (v, ev) {
                    (V::Number(x), Ok(y)) => x.to_bits() == y.to_bits() || (x.is_nan() && y.is_nan()),
                    (V::String(s), Err(t)) => s == t,
                    _ => false,
                };
            if !ok {
                return Some(format!("block '{}' attribute {} written as {:?}, parsed as {} = {:?}", name, ek, ev, k, v));
            }
        }
    }
    None
}

/// re-prints parsed blocks in another layout (types by keyword, strings quoted, numbers by Display)
fn reprint(r: &mut Rng, bs: &[BdlBlock], crlf: bool) -> String {
    let mut lines = vec![];
    for b in bs {
        if b.btype == BdlBlockType::ParteLider {
            // the loose LIDER preamble has no block syntax of its own
            for (k, v) in vals(b) {
                match v {
                    V::Number(x) => lines.push(format!("{} = {}", k, x)),
                    V::String(s) => lines.push(format!("{} = \"{}\"", k, s)),
                }
            }
            continue;
        }
        if r.chance(1, 5) {
            lines.push(format!("$ {}", b.name));
        }
        if (b.btype == BdlBlockType::GeneralData && b.name == "DATOS GENERALES") || (b.btype == BdlBlockType::Description && b.name == "Defecto") {
            // the end of the loose LIDER preamble is recognised by this header in exactly this spacing
            lines.push(format!("{}\"{}\" = {}", ws(r), b.name, KEYWORDS[b.btype as usize]));
        } else {
            lines.push(format!("{}\"{}\"{}={}{}", ws(r), b.name, ws(r), ws(r), KEYWORDS[b.btype as usize]));
        }
        for (k, v) in &vals(b) {
            match v {
                V::Number(x) => {
                    // the same f32 in another spelling: shortest decimal, exponent forms, explicit sign
                    let t = match r.below(5) {
                        0 => format!("{:E}", x),
                        1 => format!("{:e}", x),
                        2 if *x >= 0.0 => format!("+{}", x),
                        _ => format!("{}", x),
                    };
                    lines.push(format!("{}{} ={}{}", ws(r), k, ws(r), t))
                }
                V::String(s) if s.starts_with('(') => lines.push(format!("{}{}{}= {}", ws(r), k, ws(r), s)),
                V::String(s) => lines.push(format!("{}{}{}= \"{}\"{}", ws(r), k, ws(r), s, ws(r))),
            }
        }
        lines.push(format!("{}..", ws(r)));
    }
    let eol = if crlf { "\r\n" } else { "\n" };
    lines.join(eol) + eol
}

pub fn run(a: &Args) -> Batch {
    let mut r = Rng::new(a.seed);
    let mut cases = vec![];
    let mut impl_findings = vec![];
    // ---------- real files ----------
    let mut real: Vec<(String, String)> = hproj::shipped_projects().into_iter().map(|p| (p.name.clone(), p.src.bdl())).collect();
    real.extend(hproj::legacy_cte_files().into_iter().map(|p| (p.name.clone(), p.src.bdl())));
    if !a.thorough {
        // the quick tier takes the smaller files (Coq evaluates the model on every character)
        real.retain(|(_, t)| t.len() < 150_000);
    }
    let nreal = if a.thorough { real.len() } else { 8.min(real.len()) };
    // a seeded slice of the real files in the quick tier
    let mut order: Vec<usize> = (0..real.len()).collect();
    r.shuffle(&mut order);
    let mut nreprinted = 0usize;
    let mut ntyped_real = 0usize;
    for &i in order.iter().take(nreal) {
        let (name, text) = &real[i];
        cases.push(case_of(text, json!({"kind": "real file", "file": name, "chars": text.chars().count()}), true));
        // re-printed in a different layout: the same blocks must come back
        let (_, _, bs) = impl_term(text);
        if let Some(bs) = bs {
            let mut rr = r.fork(i as u64);
            let crlf = rr.chance(1, 2);
            let t2 = reprint(&mut rr, &bs, crlf);
            let (_, cls, bs2) = impl_term(&t2);
            nreprinted += 1;
            let diff = match &bs2 {
                Some(b2) => {
                    if b2.len() != bs.len() {
                        Some(format!("{} blocks, {} after re-printing", bs.len(), b2.len()))
                    } else {
                        bs.iter().zip(b2).find_map(|(x, y)| {
                            let same = x.btype == y.btype && x.name == y.name && x.parent == y.parent && format!("{:?}", x.attrs.0) == format!("{:?}", y.attrs.0);
                            if same {
                                None
                            } else {
                                Some(format!("block '{}' differs after re-printing: {:?} vs {:?}", x.name, x.attrs.0, y.attrs.0).chars().take(400).collect())
                            }
                        })
                    }
                }
                None => Some(format!("re-printed file rejected (class {}): {}", cls, build_blocks(&t2).err().map(|e| e.to_string()).unwrap_or_default().chars().take(300).collect::<String>())),
            };
            if let Some(d) = diff {
                impl_findings.push(json!({"kind": "reprint_differs", "file": name, "detail": d, "classes": ["reprint_differs"]}));
            }
            // ... and the typed elements built from them (every block type the file uses) must be the same
            let typed = |t: &str| -> String {
                let t = t.to_string();
                match crate::guarded(std::panic::AssertUnwindSafe(move || hulc::bdl::Data::new(&t).map(|d| format!("{:?}", d)).map_err(|e| e.to_string()))) {
                    Ok(Ok(s)) => s,
                    Ok(Err(e)) => format!("ERROR {}", e),
                    Err(p) => format!("PANIC {}", p),
                }
            };
            let (ta, tb) = (typed(text), typed(&t2));
            ntyped_real += 1;
            if ta != tb {
                let at = ta.bytes().zip(tb.bytes()).position(|(x, y)| x != y).unwrap_or(0);
                let lo = at.saturating_sub(120);
                let cut = |s: &str| -> String { s.chars().skip(s[..lo.min(s.len())].chars().count()).take(300).collect() };
                impl_findings.push(json!({"kind": "typed_elements_differ_after_reprint", "file": name, "as_shipped": cut(&ta), "re_printed": cut(&tb), "classes": ["typed_value_not_recovered"]}));
            }
            cases.push(case_of(&t2, json!({"kind": "real file re-printed", "file": name, "chars": t2.chars().count()}), true));
        }
    }
    // ---------- printed abstract documents ----------
    let mut nblocks = 0usize;
    let mut nattrs = 0usize;
    let mut kinds = [0usize; 4];
    for i in 0..a.n {
        let mut rr = r.fork(1000 + i as u64);
        let doc = gen_doc(&mut rr);
        let lay = Layout { crlf: rr.chance(1, 3), preamble: if rr.chance(1, 4) { 1 + rr.below(2) as u8 } else { 0 }, noise: rr.chance(2, 3) };
        let text = print_doc(&mut rr, &doc, &lay);
        nblocks += doc.len();
        for b in &doc {
            for (_, v) in &b.attrs {
                nattrs += 1;
                kinds[match v {
                    AVal::Num(_) => 0,
                    AVal::Word(_) => 1,
                    AVal::Quoted(_) => 2,
                    AVal::List(_) => 3,
                }] += 1;
            }
        }
        let (it, cls, bs) = impl_term(&text);
        let exp = expected(&doc, lay.preamble);
        let diff = match &bs {
            Some(b) => same_as_expected(b, &exp),
            None => Some(format!("document rejected (class {})", cls)),
        };
        if let Some(d) = &diff {
            impl_findings.push(json!({"kind": "written_value_not_recovered", "doc": i, "seed": a.seed, "detail": d, "text": text.chars().take(3000).collect::<String>(), "classes": ["written_value_not_recovered"]}));
        }
        cases.push(Case {
            term: format!("CBdl (mkC18 {}\n ({}))", clines(&text), it),
            post: String::new(),
            json: json!({"kind": "printed document", "doc": i, "blocks": doc.len(), "crlf": lay.crlf, "preamble": lay.preamble, "noise": lay.noise, "oracle_difference": diff}),
            nontrivial: doc.iter().any(|b| !b.attrs.is_empty()),
        });
    }
    // ---------- typed elements, KyGananciasSolares.txt, NewBDL_O.tbl (differential tests, no theorem) ----------
    let nt = if a.thorough { 2000 } else { 120 };
    std::fs::create_dir_all(&a.out).unwrap();
    let mut rt = r.fork(77);
    let mut typed_texts = vec![];
    let typed_stats = crate::p18b::typed_elements(&mut rt, nt, &mut impl_findings, &mut typed_texts);
    // typed elements also go through the Coq model: printed documents of the modelled block types, the same with
    // one damaged line, and the blocks of those types of the real files re-printed on their own
    let mut typed_cases: Vec<(String, String)> = vec![];
    let nty = if a.thorough { typed_texts.len() } else { 40.min(typed_texts.len()) };
    for (i, t) in typed_texts.iter().take(nty).enumerate() {
        typed_cases.push((format!("printed {}", i), t.clone()));
        if i % 2 == 0 {
            let nl = t.split_inclusive('\n').count().max(1);
            if let Some(d) = crate::p19::damage(t, rt.below(nl), [0usize, 1, 3, 4, 5, 6][rt.below(6)], rt.below(10)) {
                typed_cases.push((format!("printed {} with one damaged line", i), d));
            }
        }
    }
    for &i in order.iter().take(nreal) {
        let (name, text) = &real[i];
        if let (_, _, Some(bs)) = impl_term(text) {
            use BdlBlockType::*;
            let sel: Vec<BdlBlock> = bs.into_iter().filter(|b| matches!(b.btype, Material | GlassType | NameFrame | Window | BuildingShade)).collect();
            if !sel.is_empty() {
                let mut rr = r.fork(5000 + i as u64);
                typed_cases.push((format!("typed blocks of {}", name), reprint(&mut rr, &sel, false)));
            }
        }
    }
    let mut ntyped = 0usize;
    for (label, t) in &typed_cases {
        let (term, cls) = crate::p18b::typed_case(t);
        ntyped += 1;
        cases.push(Case { term, post: String::new(), json: json!({"kind": "typed elements", "file": label, "data_new": (["built", "rejected", "crashed"][cls])}), nontrivial: true });
    }
    let mut kyg_texts = vec![];
    let kyg_stats = crate::p18b::kyg_files(&mut rt, nt, &mut impl_findings, &mut kyg_texts);
    // KyG files also go through the Coq model: the shipped ones, printed ones, and printed ones with one damaged line
    let mut kyg_cases: Vec<(String, String)> = crate::p19::files().into_iter().filter(|f| f.kind == 2).map(|f| (format!("shipped {}", f.name), f.text)).collect();
    let nk = if a.thorough { kyg_texts.len() } else { 40.min(kyg_texts.len()) };
    for (i, t) in kyg_texts.iter().take(nk).enumerate() {
        kyg_cases.push((format!("printed {}", i), t.clone()));
        if i % 2 == 0 {
            let nl = t.split_inclusive('\n').count().max(1);
            if let Some(d) = crate::p19::damage(t, rt.below(nl), [0usize, 1, 4, 5, 6][rt.below(5)], rt.below(10)) {
                kyg_cases.push((format!("printed {} with one damaged line", i), d));
            }
        }
    }
    let mut nkyg = 0usize;
    for (label, t) in &kyg_cases {
        let (term, cls) = crate::p18b::kyg_case(t);
        nkyg += 1;
        cases.push(Case { term, post: String::new(), json: json!({"kind": "KyGananciasSolares.txt", "file": label, "parser": (["accepted", "rejected", "crashed"][cls])}), nontrivial: true });
    }
    let mut tbl_texts = vec![];
    let tbl_stats = crate::p18b::tbl_files(&mut rt, nt, &a.out, &mut impl_findings, &mut tbl_texts);
    let mut tbl_cases: Vec<(String, String)> = crate::p19::files().into_iter().filter(|f| f.kind == 3).map(|f| (format!("shipped {}", f.name), f.text)).collect();
    let ntb = if a.thorough { tbl_texts.len() } else { 40.min(tbl_texts.len()) };
    for (i, t) in tbl_texts.iter().take(ntb).enumerate() {
        tbl_cases.push((format!("printed {}", i), t.clone()));
        if i % 2 == 0 {
            let nl = t.split_inclusive('\n').count().max(1);
            if let Some(d) = crate::p19::damage(t, rt.below(nl), [0usize, 1, 4, 5, 6][rt.below(5)], rt.below(10)) {
                tbl_cases.push((format!("printed {} with one damaged line", i), d));
            }
        }
    }
    let mut ntbl = 0usize;
    let scratch = format!("{}/c18-case.tbl", a.out);
    for (label, t) in &tbl_cases {
        let (term, cls) = crate::p18b::tbl_case(t, &scratch);
        ntbl += 1;
        cases.push(Case { term, post: String::new(), json: json!({"kind": "NewBDL_O.tbl", "file": label, "parser": (["accepted", "rejected", "crashed"][cls])}), nontrivial: true });
    }
    let _ = std::fs::remove_file(&scratch);
    let mut building_texts = vec![];
    let building_stats = crate::p18c::buildings(&mut rt, nt, &mut impl_findings, &mut building_texts);
    // whole buildings also go through the Coq model of the SPACE and wall readers: printed ones, and the real files
    let mut building_cases: Vec<(String, String)> = building_texts.iter().take(if a.thorough { usize::MAX } else { 40 }).enumerate().map(|(i, t)| (format!("printed building {}", i), t.clone())).collect();
    for &i in order.iter().take(nreal) {
        let (name, text) = &real[i];
        building_cases.push((format!("real file {}", name), text.clone()));
    }
    let mut nbuild = 0usize;
    for (label, t) in &building_cases {
        let (term, cls) = crate::p18c::building_case(t);
        nbuild += 1;
        cases.push(Case { term, post: String::new(), json: json!({"kind": "building (spaces and walls)", "file": label, "data_new": (["built", "rejected", "crashed"][cls])}), nontrivial: cls == 0 });
    }
    Batch {
        imports: "From Coq Require Import ZArith NArith QArith List String.\nFrom CTE Require Import Base.Num Model.Bdl Model.BdlCase Model.Kyg Model.KygCase Model.Tbl Model.TblCase Model.BdlTyped Model.TypedCase Model.BdlTypedEnv Model.BuildingCase Model.C18Case.\nLocal Open Scope string_scope.".into(),
        case_ty: "c18any".into(),
        agree: "agree_C18any".into(),
        cases,
        impl_findings,
        rule: "real files = BDL text of the shipped .ctehexml projects and legacy .cte files (all in the thorough tier, a seeded slice of 8 of those under 150 kB in the quick tier), as shipped and re-printed from their parsed blocks in another layout (indentation, spacing around '=', CRLF, comment lines, numbers re-spelled with exponents or an explicit sign), where the typed elements (bdl::Data, compared through Debug) must also be identical; printed documents = 1..40 blocks of any of the 53 block types with 0..8 attributes: numbers (integers, decimals, signs, leading/trailing dot, lower and upper case exponents, f32 extremes), bare words, quoted strings (empty, with '=', '$', parentheses, numeric content), one-line and multi-line lists (closing parenthesis on the last item or on its own line), under random indentation, trailing blanks, blank and comment lines, CRLF, and the legacy LIDER preamble; names are identifiers that are not numeric literals; non-trivial = some block has attributes. Besides the Coq cases, three differential tests in Rust (no theorem): MATERIAL / GLASS-TYPE / NAME-FRAME / BUILDING-SHADE / WINDOW blocks with random values, optional attributes (legacy defaults) and attribute order through bdl::Data::new; whole small buildings (FLOOR, POLYGON, SPACE, walls of every kind and location, WINDOW, LAYERS, CONSTRUCTION) with optional attributes left out; KyGananciasSolares.txt in both column layouts with either decimal separator; NewBDL_O.tbl files - every written value must come back bit-exactly".into(),
        stats: json!({"real_files": nreal, "real_files_reprinted": nreprinted, "real_files_typed_elements_compared": ntyped_real, "printed_documents": a.n, "printed_blocks": nblocks, "printed_attributes": nattrs,
                       "attribute_kinds": {"number": kinds[0], "word": kinds[1], "quoted": kinds[2], "list": kinds[3]},
                       "typed_elements": typed_stats, "typed_documents_in_coq": ntyped, "kyg": kyg_stats, "kyg_files_in_coq": nkyg, "tbl": tbl_stats, "tbl_files_in_coq": ntbl, "buildings": building_stats, "buildings_in_coq": nbuild}),
    }
}
