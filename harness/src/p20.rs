//! C20 — solar geometry, radiation identities and embedded climate tables.
use crate::{coq, corpus, rng::Rng, Args, Batch, Case};
use bemodel::climatedata::{ClimateZone, JULYRADDATA, MONTHLYRADDATA};
use climate::solar;
use climate::{nday_from_md, radiation_for_surface, SolarRadiation};
use serde_json::json;

fn qd(x: f64) -> String {
    coq::qlit64(x)
}
fn qf(x: f32) -> String {
    coq::qlit64(x as f64)
}
const MLEN: [u32; 12] = [31, 28, 31, 30, 31, 30, 31, 31, 30, 31, 30, 31];

fn cert_case(goal: String, tac: &str, js: serde_json::Value) -> Case {
    Case { post: format!("Goal True. cert @K ({}) ltac:({}). exact I. Qed.", goal, tac), term: "C20Cert".into(), json: js, nontrivial: true }
}

// f64 evaluation of the same formulas: only used for hints and branch flags (a wrong hint makes the
// certificate fail, never pass)
fn sind(x: f64) -> f64 {
    x.to_radians().sin()
}
fn cosd(x: f64) -> f64 {
    x.to_radians().cos()
}
fn decl64(n: f64) -> f64 {
    let r = n * 360.0 / 365.0;
    0.33281 - 22.984 * cosd(r) - 0.3499 * cosd(2.0 * r) - 0.1398 * cosd(3.0 * r) + 3.7872 * sind(r) + 0.03205 * sind(2.0 * r) + 0.07187 * sind(3.0 * r)
}
fn hourangle64(t: f64) -> f64 {
    let w = (12.5 - t) * 180.0 / 12.0;
    if w > 180.0 {
        w - 360.0
    } else if w < -180.0 {
        w + 360.0
    } else {
        w
    }
}
fn sin_alt64(d: f64, w: f64, l: f64) -> f64 {
    sind(d) * sind(l) + cosd(d) * cosd(l) * cosd(w)
}
fn cos_inc64(d: f64, w: f64, l: f64, b: f64, g: f64) -> f64 {
    sind(d) * sind(l) * cosd(b) - sind(d) * cosd(l) * sind(b) * cosd(g) + cosd(d) * cosd(l) * cosd(b) * cosd(w) + cosd(d) * sind(l) * sind(b) * cosd(g) * cosd(w) + cosd(d) * sind(b) * sind(g) * sind(w)
}
const COEFS: [[f64; 6]; 8] = [
    [-0.008, 0.588, -0.062, -0.060, 0.072, -0.022],
    [0.130, 0.683, -0.151, -0.019, 0.066, -0.029],
    [0.330, 0.487, -0.221, 0.055, -0.064, -0.026],
    [0.568, 0.187, -0.295, 0.109, -0.152, -0.014],
    [0.873, -0.392, -0.362, 0.226, -0.462, 0.001],
    [1.132, -1.237, -0.412, 0.288, -0.823, 0.056],
    [1.060, -1.600, -0.359, 0.264, -1.127, 0.131],
    [0.678, -0.327, -0.250, 0.156, -1.377, 0.251],
];
const THR: [f64; 7] = [1.065, 1.230, 1.500, 1.950, 2.280, 4.500, 6.200];

/// the staged certificate for one call of radiation_for_surface; None when the point is within the
/// margin of a branch (counted as skipped)
fn rad_case(n: u32, tsol: f32, lat: f32, beta: f32, gamma: f32, gdir: f32, gdif: f32, rho: f32) -> Option<Case> {
    let out = radiation_for_surface(n, tsol, SolarRadiation { dir: gdir, dif: gdif }, lat, beta, gamma, rho);
    if !(out.dir.is_finite() && out.dif.is_finite()) {
        return None;
    }
    let d = decl64(n as f64);
    let w = hourangle64(tsol as f64);
    let sa = sin_alt64(d, w, lat as f64);
    let ct = cos_inc64(d, w, lat as f64, beta as f64, gamma as f64);
    if sa < sind(1.0) || sa > sind(88.0) {
        return None;
    }
    let alt = sa.asin().to_degrees();
    let near = |x: f64, t: f64, m: f64| (x - t).abs() < m;
    if near(ct, 0.0, 2e-3) || near(sa, cosd(85.0), 2e-3) || near(alt, 10.0, 5e-2) || near(gdif as f64, 0.01, 5e-3) {
        return None;
    }
    let gb = gdir as f64 / sa;
    let kk = 1.014 * alt.to_radians().powi(3);
    let dif_small = (gdif as f64) < 0.01;
    let eps = if dif_small { 999.0 } else { ((gdif as f64 + gb) / gdif as f64 + kk) / (1.0 + kk) };
    let k = THR.iter().filter(|t| eps >= **t).count();
    if !dif_small && THR.iter().any(|t| near(eps, *t, 2e-3 * *t)) {
        return None;
    }
    let am_hi = alt >= 10.0;
    let m = if am_hi { 1.0 / sa } else { 1.0 / (sa + 0.15 * (alt + 3.885).powf(-1.253)) };
    let iext = 1370.0 * (1.0 + 0.033 * cosd(n as f64 * 360.0 / 365.0));
    let delta = m * gdif as f64 / iext;
    let zen = (90.0 - alt).to_radians();
    let c = COEFS[k];
    let f1raw = c[0] + c[1] * delta + c[2] * zen;
    if near(f1raw, 0.0, 2e-3) {
        return None;
    }
    let flags = format!("(mkFlags {} {} {} {} {} {})", k, am_hi, f1raw > 0.0, ct > 0.0, sa > cosd(85.0), dif_small);
    let tol = 1e-3 * (1.0 + out.dir.abs().max(out.dif.abs()) as f64);
    let goal = format!(
        "rad_ok {} {} {} {} {} {} {} {} {} {} {} {} {} (1 # 10000000) {} {} {}",
        qd(n as f64),
        qf(tsol), qf(lat), qf(beta), qf(gamma), qf(gdir), qf(gdif), qf(rho), flags, qd(d), qd(sa), qd(ct), qd(alt), qf(out.dir), qf(out.dif), qd(tol)
    );
    Some(cert_case(
        goal,
        "rad_tac",
        json!({"kind": "radiation_for_surface", "nday": n, "tsol": tsol, "latitude": lat, "tilt": beta, "azimuth": gamma, "dir": gdir, "dif": gdif, "albedo": rho,
               "impl": [out.dir, out.dif], "class": k, "altitude": alt}),
    ))
}

pub fn run(a: &Args) -> Batch {
    let mut r = Rng::new(a.seed ^ 0x20);
    let mut cases = vec![];
    let mut findings = vec![];
    let mut stats = std::collections::BTreeMap::<String, usize>::new();
    // (1) day numbers: all 365 dates, exhaustively
    for m in 1..=12u32 {
        for d in 1..=MLEN[m as usize - 1] {
            let v = crate::guarded(move || nday_from_md(m, d));
            let term = match &v {
                Ok(x) => format!("(C20Nday {} {} (Some {}))", coq::z(m as i128), coq::z(d as i128), coq::z(*x as i128)),
                Err(_) => format!("(C20Nday {} {} None)", coq::z(m as i128), coq::z(d as i128)),
            };
            cases.push(Case { post: String::new(), term, json: json!({"kind": "nday_from_md", "month": m, "day": d, "impl": format!("{:?}", v), "classes": if d == 31 { vec!["day_31"] } else { vec![] }}), nontrivial: true });
        }
    }
    *stats.entry("dates".into()).or_default() += 365;
    // (2) declination for every day of the year
    let step = if a.thorough { 1 } else { 3 };
    for n in (1..=365u32).step_by(step) {
        let v = solar::declination_from_nday(n);
        cases.push(cert_case(format!("decl_ok {} {} (1 # 2000)", qd(n as f64), qf(v)), "simple_tac", json!({"kind": "declination", "nday": n, "impl": v})));
        *stats.entry("declination".into()).or_default() += 1;
    }
    // (3) altitude, azimuth, incidence angle: grid slices + random points
    let npts = a.n;
    for i in 0..npts {
        let mut rr = r.fork(i as u64);
        let (lat, dec, w) = if i % 3 == 0 {
            // a point of the 0.5 degree grid
            (rr.range(-132, 132) as f32 * 0.5, (rr.range(-46, 46) as f32 * 0.5).clamp(-23.45, 23.45), rr.range(-359, 359) as f32 * 0.5)
        } else {
            (rr.f(-66.0, 66.0), rr.f(-23.45, 23.45), rr.f(-179.9, 179.9))
        };
        let alt = solar::altitude_sol_from_data(dec, w, lat);
        if alt > 0.0 {
            cases.push(cert_case(format!("alt_ok {} {} {} {} (1 # 5000)", qf(dec), qf(w), qf(lat), qf(alt)), "simple_tac",
                json!({"kind": "altitude", "declination": dec, "hourangle": w, "latitude": lat, "impl": alt})));
            *stats.entry("altitude".into()).or_default() += 1;
            if alt > 1.0 && alt < 89.0 {
                let az = solar::azimuth_sol_from_data(dec, w, alt, lat);
                if az.is_finite() {
                    cases.push(cert_case(format!("azi_ok {} {} {} {} {} (1 # 1000)", qf(dec), qf(w), qf(lat), qf(alt), qf(az)), "simple_tac",
                        json!({"kind": "azimuth", "declination": dec, "hourangle": w, "latitude": lat, "altitude": alt, "impl": az,
                               "classes": if w.abs() > 1.0 { vec!["sun_azimuth_off_noon"] } else { vec![] }})));
                    *stats.entry("azimuth".into()).or_default() += 1;
                }
            }
        } else {
            cases.push(cert_case(format!("alt_zero_ok {} {} {} (1 # 5000)", qf(dec), qf(w), qf(lat)), "simple_tac",
                json!({"kind": "altitude_below_horizon", "declination": dec, "hourangle": w, "latitude": lat})));
            *stats.entry("altitude_zero".into()).or_default() += 1;
        }
        let (b, g) = (if rr.chance(1, 3) { *rr.pick(&[0.0f32, 90.0, 180.0, 45.0]) } else { rr.f(0.0, 180.0) }, rr.f(-180.0, 180.0));
        let inc = solar::angle_sol_surf(dec, w, lat, b, g);
        if inc.is_finite() {
            cases.push(cert_case(format!("inc_ok {} {} {} {} {} {} (1 # 2000)", qf(dec), qf(w), qf(lat), qf(b), qf(g), qf(inc)), "simple_tac",
                json!({"kind": "incidence", "declination": dec, "hourangle": w, "latitude": lat, "tilt": b, "azimuth": g, "impl": inc})));
            *stats.entry("incidence".into()).or_default() += 1;
        }
    }
    // (4) radiation on tilted surfaces
    let mut skipped = 0;
    for i in 0..npts {
        let mut rr = r.fork(500_000 + i as u64);
        let n = rr.range(1, 365) as u32;
        let tsol = rr.grid(5.0, 20.0, 0.5);
        let lat = *rr.pick(&[28.3f32, 40.7, 36.0, 43.5]);
        let beta = *rr.pick(&[0.0f32, 90.0, 90.0, 180.0, 30.0, 60.0, 135.0]);
        let gamma = rr.grid(-180.0, 180.0, 15.0);
        let gdir = if rr.chance(1, 6) { 0.0 } else { rr.grid(0.0, 900.0, 1.0) };
        let gdif = if rr.chance(1, 12) { 0.0 } else { rr.grid(1.0, 400.0, 1.0) };
        match rad_case(n, tsol, lat, beta, gamma, gdir, gdif, 0.2) {
            Some(c) => {
                cases.push(c);
                *stats.entry("radiation".into()).or_default() += 1;
            }
            None => skipped += 1,
        }
    }
    stats.insert("radiation_skipped_near_branch_or_night".into(), skipped);
    // (5) identities and tables on the implementation
    impl_oracles(&mut findings, &mut stats);
    Batch {
        imports: "From Coq Require Import ZArith NArith QArith Reals List.\nFrom Interval Require Import Tactic.\nFrom CTE Require Import Base.Num Model.Solar Model.SolarCert Model.SolarCase.".into(),
        case_ty: "c20_case".into(),
        agree: "agree_C20".into(),
        cases,
        impl_findings: findings,
        rule: "all 365 (month, day) pairs; declination for the days of the year; altitude / azimuth / incidence at points of the 0.5 degree grid and random points (latitude [-66,66], declination [-23.45,23.45], hour angle (-180,180), any tilt / azimuth), each as an interval certificate through the forward trigonometric functions; radiation_for_surface at random (day, solar time, latitude, tilt, azimuth, beam, diffuse) as a staged certificate with every branch flagged and certified; on the implementation: horizontal conservation (altitude >= 6), downward = albedo x global, beam >= 0 for all hours of zonaD3.met, embedded tables complete / non-negative, D3 monthly and July-day tables against the shipped weather file; non-trivial = every case; distinct by content hash".into(),
        stats: json!(stats),
    }
}

fn impl_oracles(findings: &mut Vec<serde_json::Value>, stats: &mut std::collections::BTreeMap<String, usize>) {
    let path = corpus::repo().join("climate/src/zonaD3.met");
    let met = match climate::met::parse_from_path(&path) {
        Ok(m) => m,
        Err(e) => {
            findings.push(json!({"what": "the shipped weather file does not parse", "error": e.to_string(), "classes": ["met_parse"]}));
            return;
        }
    };
    let lat = met.meta.latitude;
    let (mut nh, mut nd, mut nb) = (0, 0, 0);
    let mut worst: (f32, serde_json::Value) = (0.0, json!(null));
    for h in &met.data {
        let nday = climate::nday_from_ymd(2001, h.month, h.day);
        let alt = 90.0 - h.zenith;
        let g = SolarRadiation { dir: h.rdirhor, dif: h.rdifhor };
        let decl = solar::declination_from_nday(nday);
        let w = solar::hourangle_from_tsol(h.hour);
        let altm = solar::altitude_sol_from_data(decl, w, lat);
        if altm >= 6.0 && (h.rdirhor > 0.0 || h.rdifhor > 0.0) {
            let hz = radiation_for_surface(nday, h.hour, g, lat, 0.0, 0.0, 0.2);
            let err = ((hz.dir + hz.dif) - (h.rdirhor + h.rdifhor)).abs();
            nh += 1;
            if err > 0.01 + 1e-4 * (h.rdirhor + h.rdifhor) && err > worst.0 {
                worst = (err, json!({"month": h.month, "day": h.day, "hour": h.hour, "input": [h.rdirhor, h.rdifhor], "horizontal": [hz.dir, hz.dif], "altitude": altm}));
            }
        }
        if altm >= 0.5 {
            let dn = radiation_for_surface(nday, h.hour, g, lat, 180.0, 0.0, 0.2);
            nd += 1;
            let want = 0.2 * (h.rdirhor + h.rdifhor);
            if dn.dir.abs() > 1e-3 || (dn.dif - want).abs() > 0.01 + 1e-3 * want {
                findings.push(json!({"what": "a downward-facing surface does not receive albedo x global horizontal radiation", "month": h.month, "day": h.day, "hour": h.hour,
                    "got": [dn.dir, dn.dif], "want_dif": want, "classes": ["downward_albedo"]}));
                break;
            }
        }
        for (b, gm) in [(90.0f32, 0.0f32), (90.0, 90.0), (90.0, -90.0), (90.0, 180.0), (45.0, 30.0)] {
            let x = radiation_for_surface(nday, h.hour, g, lat, b, gm, 0.2);
            nb += 1;
            if x.dir < 0.0 {
                findings.push(json!({"what": "negative beam radiation", "month": h.month, "day": h.day, "hour": h.hour, "tilt": b, "azimuth": gm, "dir": x.dir, "classes": ["beam_negative"]}));
                return;
            }
        }
        let _ = alt;
    }
    if worst.0 > 0.0 {
        findings.push(json!({"what": "radiation on a horizontal surface differs from the horizontal input", "error": worst.0, "at": worst.1, "classes": ["horizontal_conservation"]}));
    }
    stats.insert("met_hours_horizontal".into(), nh);
    stats.insert("met_hours_downward".into(), nd);
    stats.insert("met_beam_checks".into(), nb);
    // embedded monthly table of D3 against the weather file, per orientation class
    let monthly = MONTHLYRADDATA.lock().unwrap().clone();
    let d3: Vec<_> = monthly.iter().filter(|e| e.zone == ClimateZone::D3).collect();
    if d3.len() != 9 {
        findings.push(json!({"what": "D3 does not have 9 monthly entries", "n": d3.len(), "classes": ["table_shape"]}));
    }
    for e in &d3 {
        // the azimuth the model's orientation classes stand for (S = 0, E positive, as Orientation::from and
        // radiation_for_surface use it)
        use bemodel::Orientation::*;
        let (beta, gamma) = match e.orientation {
            HZ => (0.0f32, 0.0f32),
            S => (90.0, 0.0),
            SE => (90.0, 45.0),
            E => (90.0, 90.0),
            NE => (90.0, 135.0),
            N => (90.0, 180.0),
            NW => (90.0, -135.0),
            W => (90.0, -90.0),
            SW => (90.0, -45.0),
        };
        let err_for = |g: f32| -> f32 {
            let rad = climate::met::period_radiation_for_surface(&met.data, lat, beta, g, 0.2);
            let mut err = 0.0f32;
            for mth in 1..=12u32 {
                let (sd, sf): (f32, f32) = rad.iter().filter(|x| x.month == mth).fold((0.0, 0.0), |acc, x| (acc.0 + x.dir, acc.1 + x.dif));
                err = err.max((sd / 1000.0 - e.dir[mth as usize - 1]).abs()).max((sf / 1000.0 - e.dif[mth as usize - 1]).abs());
            }
            err
        };
        let err = err_for(gamma);
        stats.insert(format!("d3_monthly_{:?}_maxerr_milli", e.orientation), (err * 1000.0) as usize);
        if err > 0.0151 {
            let mirrored = err_for(-gamma) <= 0.0151;
            findings.push(json!({"what": "embedded D3 monthly table differs from what the radiation model computes from zonaD3.met for this orientation class", "orientation": format!("{:?}", e.orientation),
                "model_azimuth": gamma, "table_gamma": e.gamma, "max_error_kwh_m2": err, "equals_the_mirrored_orientation": mirrored,
                "classes": if mirrored { vec!["d3_monthly_east_west_swapped"] } else { vec!["d3_monthly_table"] }}));
        }
    }
    // July design day of D3 against the file's rows for the date the table carries
    let july = JULYRADDATA.lock().unwrap().clone();
    if let Some(rows) = july.get(&ClimateZone::D3) {
        for row in rows {
            let f = met.data.iter().find(|h| h.month == row.month && h.day == row.day && (h.hour - row.hour).abs() < 1e-3);
            match f {
                Some(h) => {
                    if (h.rdirhor - row.dir).abs() > 1.0 || (h.rdifhor - row.dif).abs() > 1.0 || ((90.0 - h.zenith) - row.altitude).abs() > 0.11 || (h.azimuth - row.azimuth).abs() > 0.11 {
                        findings.push(json!({"what": "embedded D3 July-day row differs from the weather file", "row": [row.hour, row.dir, row.dif, row.azimuth, row.altitude],
                            "file": [h.hour, h.rdirhor, h.rdifhor, h.azimuth, h.zenith], "classes": ["d3_july_table"]}));
                    }
                }
                None => findings.push(json!({"what": "embedded D3 July-day row has no counterpart in the weather file", "row": [row.month as f32, row.day as f32, row.hour], "classes": ["d3_july_table"]})),
            }
        }
        stats.insert("d3_july_rows".into(), rows.len());
    }
}
