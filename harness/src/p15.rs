//! C15 — the model checker reports exactly the broken links.
use crate::{coq, corpus, gen, rng::Rng, Args, Batch, Case};
use bemodel::*;
use serde_json::json;

/// classify an implementation warning as (id, kind) by the element collection its id belongs
/// to and by which referenced id its message mentions (robust to rewording), falling back to
/// keywords of the message
fn classify(m: &Model, w: &Warning) -> Option<(Uuid, &'static str)> {
    let id = w.id?;
    if w.level != WarningLevel::WARNING {
        return None;
    }
    let msg = &w.msg;
    // strip the element's own id (first occurrence) so that a reference equal to it is still seen
    let own = id.to_string();
    let rest = match msg.find(&own) {
        Some(p) => format!("{}{}", &msg[..p], &msg[p + own.len()..]),
        None => msg.clone(),
    };
    let mentions = |u: Uuid| rest.contains(&u.to_string());
    let walls: Vec<&Wall> = m.walls.iter().filter(|x| x.id == id).collect();
    let wins: Vec<&Window> = m.windows.iter().filter(|x| x.id == id).collect();
    let tbs: Vec<&ThermalBridge> = m.thermal_bridges.iter().filter(|x| x.id == id).collect();
    let mut cands: Vec<&'static str> = vec![];
    for x in &walls {
        if mentions(x.space) {
            cands.push("WallSpace")
        }
        if mentions(x.cons) {
            cands.push("WallCons")
        }
        if let Some(nx) = x.next_to {
            if mentions(nx) {
                cands.push("WallNext")
            }
        }
    }
    for x in &wins {
        if mentions(x.wall) {
            cands.push("WinWall")
        }
        if mentions(x.cons) {
            cands.push("WinCons")
        }
    }
    if !tbs.is_empty() && walls.is_empty() && wins.is_empty() {
        cands.push("BridgeNeg");
    }
    cands.sort_unstable();
    cands.dedup();
    if cands.len() == 1 {
        return Some((id, cands[0]));
    }
    // keyword fallback (ambiguous references, e.g. space id == next_to id)
    let low = msg.to_lowercase();
    let k = if !walls.is_empty() && low.contains("adyacente") {
        "WallNext"
    } else if !walls.is_empty() && low.contains("espacio") {
        "WallSpace"
    } else if !walls.is_empty() && low.contains("construcci") {
        "WallCons"
    } else if !wins.is_empty() && low.contains("opaco") {
        "WinWall"
    } else if !wins.is_empty() && low.contains("construcci") {
        "WinCons"
    } else if !tbs.is_empty() {
        "BridgeNeg"
    } else {
        return None;
    };
    Some((id, k))
}

pub fn one_case(m: &Model, origin: &str) -> Case {
    coq::reset_ids();
    let before = m.as_json().unwrap();
    let ws = check(m);
    let after = m.as_json().unwrap();
    let mut unknown = 0;
    let mut impl_w = vec![];
    for w in &ws {
        match classify(m, w) {
            Some(x) => impl_w.push(x),
            None => unknown += 1,
        }
    }
    // the warnings returned with the indicators are the checker's
    let indic_same = match crate::guarded(std::panic::AssertUnwindSafe(|| m.energy_indicators())) {
        Ok(ind) => {
            ind.warnings.len() == ws.len()
                && ind.warnings.iter().zip(&ws).all(|(a, b)| a.id == b.id && a.msg == b.msg && a.level == b.level)
        }
        // a crash of the indicator computation is C14's business; here only the warnings matter
        Err(_) => true,
    };
    let term = format!(
        "(mkC15 {}\n {} {} {} {})",
        coq::model(m),
        coq::list(&impl_w, |(i, k)| format!("({}, {})", coq::id(*i), k)),
        coq::n(unknown),
        coq::b(indic_same),
        coq::b(before == after)
    );
    Case {
        post: String::new(),
        term,
        json: json!({"origin": origin, "model": serde_json::from_str::<serde_json::Value>(&before).unwrap(),
                     "impl_warnings": ws.iter().map(|w| json!({"id": w.id, "msg": w.msg})).collect::<Vec<_>>() }),
        nontrivial: !ws.is_empty(),
    }
}

pub fn run(a: &Args) -> Batch {
    let mut r = Rng::new(a.seed);
    let mut cases = vec![];
    let mut nbroken = 0usize;
    for (name, m) in corpus::shipped_models() {
        cases.push(one_case(&m, &name));
    }
    let cfg = gen::GenCfg { schedules: false, ..Default::default() };
    for i in 0..a.n {
        let mut rr = r.fork(i as u64);
        let mut m = gen::gen_model(&mut rr, &cfg);
        match i % 5 {
            0 => {}
            1 => nbroken += gen::break_links(&mut rr, &mut m, 1, 4),
            2 => nbroken += gen::break_links(&mut rr, &mut m, 1, 12) + gen::negate_bridges(&mut rr, &mut m, 1, 2),
            3 => {
                gen::add_duplicates(&mut rr, &mut m);
                nbroken += gen::break_links(&mut rr, &mut m, 1, 6) + gen::negate_bridges(&mut rr, &mut m, 1, 3);
            }
            _ => {
                gen::add_unused(&mut rr, &mut m);
                nbroken += gen::negate_bridges(&mut rr, &mut m, 1, 1);
            }
        }
        cases.push(one_case(&m, &format!("gen seed={} i={}", a.seed, i)));
    }
    Batch {
        imports: "From Coq Require Import ZArith NArith QArith List.\nFrom CTE Require Import Base.Num Model.BModel Model.Checks.".into(),
        case_ty: "c15_case".into(),
        agree: "agree_C15".into(),
        cases,
        impl_findings: vec![],
        rule: "shipped model files + generated models; every 5th closed, others with random links redirected to absent/nil ids, bridge lengths negated (0 -> -0), duplicated elements, unused items; non-trivial = the implementation emits at least one warning; distinct by content hash of the case term".into(),
        stats: json!({"links_broken_or_bridges_negated": nbroken}),
    }
}
