//! C03 — conversion preserves the building's geometry and orientation conventions.
//! Every converted element is pushed through its own transform (WallGeom::to_global_coords_matrix)
//! and compared in Coq with the corner points the model computes from the source (BDL) definition.
use crate::hproj::{self, Src};
use crate::{coq, rng::Rng, Args, Batch, Case};
use bemodel::Model;
use hulc::bdl::{BdlBlockType, Data};
use nalgebra::Point3;
use serde_json::{json, Value};
use std::convert::TryFrom;

/// angles whose cosine and sine are exact rationals: (degrees, cos num, sin num, den)
const EXACT: [(f64, i64, i64, i64); 12] = [
    (0.0, 1, 0, 1),
    (90.0, 0, 1, 1),
    (180.0, -1, 0, 1),
    (270.0, 0, -1, 1),
    (36.86989764584402, 4, 3, 5),
    (53.13010235415598, 3, 4, 5),
    (22.61986494804043, 12, 5, 13),
    (67.38013505195957, 5, 12, 13),
    (126.86989764584402, -3, 4, 5),
    (216.86989764584402, -4, -3, 5),
    (306.86989764584402, 3, -4, 5),
    (343.73979529168804, 24, -7, 25),
];

fn norm360(a: f64) -> f64 {
    let x = a % 360.0;
    if x < 0.0 {
        x + 360.0
    } else {
        x
    }
}

/// (cos, sin) of an angle in degrees as a Coq pair, and whether it is exact
fn cs_term(deg: f64) -> (String, bool) {
    let d = norm360(deg);
    for (a, c, s, den) in EXACT.iter() {
        if (d - a).abs() < 2e-5 || (d - a - 360.0).abs() < 2e-5 {
            return (format!("(({} # {})%Q, ({} # {})%Q)", wrapz(*c), den, wrapz(*s), den), true);
        }
    }
    let r = deg.to_radians();
    (format!("({}, {})", coq::qlit64(r.cos()), coq::qlit64(r.sin())), false)
}
fn wrapz(x: i64) -> String {
    if x < 0 {
        format!("({})", x)
    } else {
        format!("{}", x)
    }
}

/// kernel-checked certificate that the pair really is (cos, sin) of the angle, for angles that are not exact
fn cert_for(deg: f32) -> String {
    let (_, exact) = cs_term(deg as f64);
    if exact {
        return String::new();
    }
    let r = (deg as f64).to_radians();
    let rat = |x: f64| -> String {
        // (num # den)%Q literal -> IZR num / IZR den
        let s = coq::qlit64(x);
        let inner = s.trim_start_matches('(').trim_end_matches("%Q").trim_end_matches(')');
        let parts: Vec<&str> = inner.split('#').map(|p| p.trim().trim_matches(|c| c == '(' || c == ')')).collect();
        format!("(IZR ({}) / IZR {})", parts[0], parts[1])
    };
    format!(
        "Goal True. cert03 @K ((Rabs (cos ({d} * PI / 180) - {c}) <= 1 / 10000000)%R /\\ (Rabs (sin ({d} * PI / 180) - {s}) <= 1 / 10000000)%R). exact I. Qed.\n",
        d = rat(deg as f64),
        c = rat(r.cos()),
        s = rat(r.sin())
    )
}

fn v3(p: &Point3<f32>) -> String {
    format!("(mkV {} {} {})", coq::q(p.x), coq::q(p.y), coq::q(p.z))
}
fn v3f(x: f32, y: f32, z: f32) -> String {
    format!("(mkV {} {} {})", coq::q(x), coq::q(y), coq::q(z))
}
fn lst(v: &[String]) -> String {
    format!("[{}]", v.join("; "))
}

fn shoelace(p: &[nalgebra::Point2<f32>]) -> f32 {
    let n = p.len();
    let mut a = 0.0f64;
    for i in 0..n {
        let (u, v) = (p[i], p[(i + 1) % n]);
        a += u.x as f64 * v.y as f64 - v.x as f64 * u.y as f64;
    }
    (a.abs() / 2.0) as f32
}

fn global_deviation(d: &Data) -> f32 {
    d.meta.get(&BdlBlockType::BuildParameters).map(|p| p.attrs.get_f32_or_default("AZIMUTH")).unwrap_or_default()
}

thread_local! {
    /// position and azimuth of every space as WRITTEN in the project being looked at: X, Y, Z + the Z of its
    /// floor, AZIMUTH, read from the raw blocks (not from what bdl::Data::new merged into the space)
    static SRCPOS: std::cell::RefCell<std::collections::HashMap<String, (f32, f32, f32, f32)>> = Default::default();
}
fn load_srcpos(bdl: &str) {
    let mut m = std::collections::HashMap::new();
    if let Ok(blocks) = hulc::bdl::build_blocks(bdl) {
        let floor_z: std::collections::HashMap<String, f32> =
            blocks.iter().filter(|b| b.btype == BdlBlockType::Floor).map(|b| (b.name.clone(), b.attrs.get_f32("Z").unwrap_or(0.0))).collect();
        for b in blocks.iter().filter(|b| b.btype == BdlBlockType::Space) {
            let g = |k: &str| b.attrs.get_f32(k).unwrap_or(0.0);
            let fz = b.parent.as_ref().and_then(|p| floor_z.get(p)).copied().unwrap_or(0.0);
            m.insert(b.name.clone(), (g("X"), g("Y"), g("Z") + fz, g("AZIMUTH")));
        }
    }
    SRCPOS.with(|c| *c.borrow_mut() = m);
}
fn space_term(s: &hulc::bdl::Space) -> String {
    let poly: Vec<String> = s.polygon.as_vec().iter().map(|p| format!("({}, {})", coq::q(p.x), coq::q(p.y))).collect();
    let (x, y, z, az) = SRCPOS.with(|c| c.borrow().get(&s.name).copied()).unwrap_or((s.x, s.y, s.z, s.angle_with_building_north));
    format!("(mkSS {} {} {} {})", v3f(x, y, z), cs_term(az as f64).0, coq::q(s.height), lst(&poly))
}

fn global_points(g: &bemodel::WallGeom) -> Option<Vec<Point3<f32>>> {
    let m = g.to_global_coords_matrix()?;
    Some(g.polygon.iter().map(|p| m * Point3::new(p.x, p.y, 0.0)).collect())
}

/// sets / replaces `KEY = value` inside the block named `name` of type `ty` (inserted before the terminator)
fn set_attr(bdl: &str, name: &str, ty: &str, key: &str, value: &str) -> Option<String> {
    let head = format!("\"{}\" = {}", name, ty);
    let lines: Vec<&str> = bdl.split_inclusive('\n').collect();
    let start = lines.iter().position(|l| {
        let t = l.trim();
        t.starts_with(&format!("\"{}\"", name)) && t.replace(' ', "").ends_with(&format!("={}", ty)) || t == head
    })?;
    let end = (start..lines.len()).find(|&i| lines[i].trim() == "..")?;
    let mut out = String::new();
    for (i, l) in lines.iter().enumerate() {
        if i > start && i < end {
            let t = l.trim_start();
            if t.starts_with(key) && t[key.len()..].trim_start().starts_with('=') {
                continue;
            }
        }
        if i == end {
            out.push_str(&format!("    {} = {}\n", key, value));
        }
        out.push_str(l);
    }
    Some(out)
}

fn build_params_name(d: &Data) -> Option<String> {
    d.meta.get(&BdlBlockType::BuildParameters).map(|b| b.name.clone())
}

struct Conv {
    data: Data,
    model: Model,
}

fn convert(src: &Src) -> Option<Conv> {
    let s = src.clone();
    crate::guarded(std::panic::AssertUnwindSafe(move || {
        let d = s.parse().ok()?;
        let m = Model::try_from(&d).ok()?;
        Some(Conv { data: d.bdldata, model: m })
    }))
    .ok()
    .flatten()
}

pub fn run(a: &Args) -> Batch {
    let mut r = Rng::new(a.seed);
    let mut cases: Vec<Case> = vec![];
    let mut stats = std::collections::BTreeMap::<&'static str, usize>::new();
    let mut bump = |k: &'static str| *stats.entry(k).or_insert(0) += 1;
    let shipped = hproj::shipped_projects();

    // ---------- projects: shipped + variants with the building turned, spaces offset and turned ----------
    let mut projects: Vec<(String, Src)> = shipped.iter().map(|p| (p.name.clone(), p.src.clone())).collect();
    let mut nvar = 0;
    let mut tries = 0;
    while nvar < a.n && tries < a.n * 10 {
        tries += 1;
        let p = r.pick(&shipped);
        let d = match p.src.parse() {
            Ok(d) => d.bdldata,
            Err(_) => continue,
        };
        let mut bdl = p.src.bdl();
        let mut what = vec![];
        if let Some(bp) = build_params_name(&d) {
            let ang = if r.chance(2, 3) { r.pick(&EXACT).0 } else { (r.below(3600) as f64) / 10.0 };
            if let Some(t) = set_attr(&bdl, &bp, "BUILD-PARAMETERS", "AZIMUTH", &format!("{:.6}", ang)) {
                bdl = t;
                what.push(format!("deviation {:.4}", ang));
            }
        }
        // offset / turn some spaces within the building
        let kind = r.below(3);
        for s in d.spaces.iter() {
            if kind == 0 || !r.chance(1, 2) {
                continue;
            }
            let (x, y) = (r.grid(-20.0, 20.0, 0.5), r.grid(-20.0, 20.0, 0.5));
            if let Some(t) = set_attr(&bdl, &s.name, "SPACE", "X", &format!("{}", x)).and_then(|t| set_attr(&t, &s.name, "SPACE", "Y", &format!("{}", y))) {
                bdl = t;
                what.push(format!("space {} at ({}, {})", s.name, x, y));
            }
            // a level of its own within the storey
            if r.chance(1, 2) {
                let z = r.grid(-3.0, 3.0, 0.5);
                if let Some(t) = set_attr(&bdl, &s.name, "SPACE", "Z", &format!("{}", z)) {
                    bdl = t;
                    what.push(format!("space {} raised {}", s.name, z));
                }
            }
            if kind == 2 {
                let ang = r.pick(&EXACT).0;
                if let Some(t) = set_attr(&bdl, &s.name, "SPACE", "AZIMUTH", &format!("{:.6}", ang)) {
                    bdl = t;
                    what.push(format!("space {} turned {:.4}", s.name, ang));
                }
            }
        }
        // turn / tilt the rectangular shades (exact angles, 0 and 180 included)
        for sh in d.shadings.iter() {
            if sh.geometry.is_none() || !r.chance(1, 2) {
                continue;
            }
            let (ti, az) = (r.pick(&[0.0, 90.0, 180.0, 36.86989764584402, 126.86989764584402, 53.13010235415598]).clone(), r.pick(&EXACT).0);
            if let Some(t) = set_attr(&bdl, &sh.name, "BUILDING-SHADE", "TILT", &format!("{:.6}", ti)).and_then(|t| set_attr(&t, &sh.name, "BUILDING-SHADE", "AZIMUTH", &format!("{:.6}", az))) {
                bdl = t;
                what.push(format!("shade {} tilt {:.2} azimuth {:.2}", sh.name, ti, az));
            }
        }
        // ceilings taken from the space outline given an azimuth of their own: the outline must not move
        for w in d.walls.iter() {
            if w.location.as_deref() != Some("TOP") || w.polygon.is_some() || !r.chance(1, 2) {
                continue;
            }
            let ang = r.pick(&EXACT).0;
            for ty in ["ROOF", "EXTERIOR-WALL", "INTERIOR-WALL", "UNDERGROUND-WALL"] {
                if let Some(t) = set_attr(&bdl, &w.name, ty, "AZIMUTH", &format!("{:.6}", ang)) {
                    bdl = t;
                    what.push(format!("ceiling {} azimuth {:.2}", w.name, ang));
                    break;
                }
            }
        }
        if what.is_empty() {
            continue;
        }
        nvar += 1;
        projects.push((format!("{} [{}]", p.name, what.join("; ").chars().take(200).collect::<String>()), p.src.with_bdl(&bdl)));
    }

    let mut not_converted = 0usize;
    for (pname, src) in &projects {
        let c = match convert(src) {
            Some(c) => c,
            None => {
                not_converted += 1;
                continue;
            }
        };
        load_srcpos(&src.bdl());
        let dev = global_deviation(&c.data);
        let (dev_t, _) = cs_term(dev as f64);
        // gross areas as the model reports them (WallGeom::area through the public indicators)
        let ind = match crate::guarded(std::panic::AssertUnwindSafe(|| c.model.energy_indicators())) {
            Ok(i) => i,
            Err(_) => continue,
        };
        let area_of = |id: &bemodel::Uuid| ind.props.walls.get(id).map(|p| p.area_gross).unwrap_or(0.0);
        // ---------- walls ----------
        for w in &c.data.walls {
            let mw = match c.model.walls.iter().find(|x| x.name == w.name) {
                Some(x) => x,
                None => continue,
            };
            let s = match c.data.spaces.iter().find(|s| s.name == w.space) {
                Some(s) => s,
                None => continue,
            };
            let pts = match global_points(&mw.geometry) {
                Some(p) => p,
                None => continue,
            };
            let impl_pts: Vec<String> = pts.iter().map(v3).collect();
            let off = v3f(w.x, w.y, w.z);
            let turned_space = s.angle_with_building_north.abs() > 1e-6;
            let classes: Vec<&str> = if turned_space { vec!["space_turned_within_building"] } else { vec![] };
            let certs = format!("{}{}", cert_for(dev), cert_for(s.angle_with_building_north));
            let js = |kind: &str| json!({"kind": kind, "project": pname, "wall": w.name, "space": s.name, "location": w.location, "deviation": dev, "space_xy": [s.x, s.y], "space_azimuth": s.angle_with_building_north, "classes": classes});
            match (w.location.as_deref(), w.polygon.is_some()) {
                (Some(loc), false) if loc != "TOP" && loc != "BOTTOM" => {
                    let n: usize = match loc.trim_start_matches('V').parse::<usize>() {
                        Ok(n) if n >= 1 => n - 1,
                        _ => continue,
                    };
                    // unit normal of the converted rectangle, from its global corners
                    if pts.len() < 3 {
                        continue;
                    }
                    let nrm = (pts[1] - pts[0]).cross(&(pts[2] - pts[1]));
                    let nrm = if nrm.norm() > 0.0 { nrm / nrm.norm() } else { nrm };
                    bump("edge walls");
                    cases.push(Case {
                        term: format!("EdgeWall {} {} {}%nat {} {} {}", dev_t, space_term(s), n, off, lst(&impl_pts), v3f(nrm.x, nrm.y, nrm.z)),
                        post: certs.clone(),
                        json: js("wall on an edge of the space outline"),
                        nontrivial: dev != 0.0 || s.x != 0.0 || s.y != 0.0,
                    });
                    // area = edge length x storey height
                    let pv = s.polygon.as_vec();
                    if n < pv.len() {
                        let (p1, p2) = (pv[n], pv[(n + 1) % pv.len()]);
                        let area = (((p2.x - p1.x) as f64).hypot((p2.y - p1.y) as f64) * s.height as f64) as f32;
                        bump("areas");
                        cases.push(Case { term: format!("Numbers (1 # 1000) [{}] [{}]", coq::q(area), coq::q(area_of(&mw.id))), post: String::new(), json: js("area of a wall on an edge"), nontrivial: true });
                    }
                }
                (Some(loc), false) => {
                    let z = if loc == "TOP" { s.height } else { 0.0 };
                    bump("slabs from the space outline");
                    cases.push(Case {
                        term: format!("Slab {} {} {} {} {}", dev_t, space_term(s), coq::q(z), off, lst(&impl_pts)),
                        post: certs.clone(),
                        json: js("floor / ceiling from the space outline"),
                        nontrivial: dev != 0.0 || s.x != 0.0 || s.y != 0.0,
                    });
                    bump("areas");
                    cases.push(Case { term: format!("Numbers (1 # 1000) [{}] [{}]", coq::q(shoelace(&s.polygon.as_vec())), coq::q(area_of(&mw.id))), post: String::new(), json: js("area of a floor / ceiling"), nontrivial: true });
                }
                (_, true) => {
                    // defined by its own polygon: every corner, and the area must be the polygon's
                    if let Some(p) = &w.polygon {
                        let poly: Vec<String> = p.as_vec().iter().map(|q| format!("({}, {})", coq::q(q.x), coq::q(q.y))).collect();
                        bump("walls with their own polygon");
                        cases.push(Case {
                            term: format!("PolyWall {} {} {} {} {} {} {}", dev_t, space_term(s), cs_term(w.angle_with_space_north as f64).0, cs_term(w.tilt as f64).0, off, lst(&poly), lst(&impl_pts)),
                            post: format!("{}{}{}", certs, cert_for(w.angle_with_space_north), cert_for(w.tilt)),
                            json: js("wall / roof with its own polygon"),
                            nontrivial: true,
                        });
                        bump("areas");
                        cases.push(Case { term: format!("Numbers (1 # 1000) [{}] [{}]", coq::q(shoelace(&p.as_vec())), coq::q(area_of(&mw.id))), post: String::new(), json: js("area of a wall with its own polygon"), nontrivial: true });
                    }
                }
                _ => {}
            }
        }
        // ---------- windows ----------
        for w in &c.data.windows {
            if let Some(mw) = c.model.windows.iter().find(|x| x.name == w.name) {
                if let Some(p) = mw.geometry.position {
                    bump("windows");
                    cases.push(Case {
                        term: format!("Numbers (1 # 200) {} {}", lst(&[coq::q(w.x), coq::q(w.y), coq::q(w.width), coq::q(w.height), coq::q(w.setback)]), lst(&[coq::q(p.x), coq::q(p.y), coq::q(mw.geometry.width), coq::q(mw.geometry.height), coq::q(mw.geometry.setback)])),
                        post: String::new(),
                        json: json!({"kind": "window offset, size and setback", "project": pname, "window": w.name, "classes": []}),
                        nontrivial: true,
                    });
                }
            }
        }
        // ---------- rectangular shades ----------
        for sh in &c.data.shadings {
            if let (Some(g), Some(ms)) = (&sh.geometry, c.model.shades.iter().find(|x| x.name == sh.name)) {
                if let Some(pts) = global_points(&ms.geometry) {
                    bump("rectangular shades");
                    cases.push(Case {
                        term: format!("RectShade {} {} {} {} {} {} {}", dev_t, cs_term(g.azimuth as f64).0, cs_term(g.tilt as f64).0, v3f(g.x, g.y, g.z), coq::q(g.width), coq::q(g.height), lst(&pts.iter().map(v3).collect::<Vec<_>>())),
                        post: format!("{}{}{}", cert_for(dev), cert_for(g.azimuth), cert_for(g.tilt)),
                        json: json!({"kind": "rectangular shade", "project": pname, "shade": sh.name, "deviation": dev, "azimuth": g.azimuth, "tilt": g.tilt, "classes": []}),
                        nontrivial: true,
                    });
                }
            }
        }
        // ---------- shades given by vertices ----------
        for sh in &c.data.shadings {
            if let (Some(vs), Some(ms)) = (&sh.vertices, c.model.shades.iter().find(|x| x.name == sh.name)) {
                if let Some(pts) = global_points(&ms.geometry) {
                    bump("shades by vertices");
                    cases.push(Case {
                        term: format!("Points {} {} {}", dev_t, lst(&vs.iter().map(v3).collect::<Vec<_>>()), lst(&pts.iter().map(v3).collect::<Vec<_>>())),
                        post: cert_for(dev),
                        json: json!({"kind": "shade defined by vertices", "project": pname, "shade": sh.name, "deviation": dev, "classes": []}),
                        nontrivial: true,
                    });
                }
            }
        }
    }

    // ---------- the whole building turned by a further angle ----------
    let nturn = if a.thorough { shipped.len() * 4 } else { shipped.len() };
    for i in 0..nturn {
        let p = &shipped[i % shipped.len()];
        let before = match convert(&p.src) {
            Some(c) => c,
            None => continue,
        };
        let e = EXACT[1 + r.below(EXACT.len() - 1)];
        let dev = global_deviation(&before.data);
        let bp = match build_params_name(&before.data) {
            Some(b) => b,
            None => continue,
        };
        let bdl2 = match set_attr(&p.src.bdl(), &bp, "BUILD-PARAMETERS", "AZIMUTH", &format!("{:.6}", dev as f64 + e.0)) {
            Some(t) => t,
            None => continue,
        };
        let after = match convert(&p.src.with_bdl(&bdl2)) {
            Some(c) => c,
            None => continue,
        };
        if before.model.walls.len() != after.model.walls.len() {
            continue;
        }
        let pos = |m: &Model| -> Vec<String> { m.walls.iter().filter_map(|w| w.geometry.position.as_ref().map(v3)).collect() };
        let azs = |m: &Model| -> Vec<String> {
            m.walls
                .iter()
                .filter(|w| w.geometry.tilt > 1.0 && w.geometry.tilt < 179.0)
                .map(|w| {
                    let r = (w.geometry.azimuth as f64).to_radians();
                    format!("({}, {})", coq::qlit64(r.cos()), coq::qlit64(r.sin()))
                })
                .collect()
        };
        let inv = |m: &Model| -> Vec<String> {
            let ind = m.energy_indicators();
            let mut v = vec![ind.area_ref, ind.compactness, ind.K_data.K, ind.n50_data.n50, ind.n50_data.n50_ref, ind.vol_env_net, ind.vol_env_gross];
            v.extend(m.walls.iter().map(|w| ind.props.walls.get(&w.id).map(|p| p.area_gross).unwrap_or(0.0)));
            v.extend(m.walls.iter().map(|w| ind.props.walls.get(&w.id).and_then(|p| p.u_value).unwrap_or(0.0)));
            v.iter().map(|x| if x.is_finite() { coq::q(*x) } else { "0".to_string() }).collect()
        };
        let et = format!("(({} # {})%Q, ({} # {})%Q)", wrapz(e.1), e.3, wrapz(e.2), e.3);
        bump("whole building turned");
        cases.push(Case {
            term: format!("Turned {} {} {} {} {} {} {}", et, lst(&pos(&before.model)), lst(&pos(&after.model)), lst(&azs(&before.model)), lst(&azs(&after.model)), lst(&inv(&before.model)), lst(&inv(&after.model))),
            post: String::new(),
            json: json!({"kind": "whole building turned", "project": p.name, "deviation": dev, "turned_by": e.0, "walls": before.model.walls.len(), "classes": []}),
            nontrivial: true,
        });
    }
    let st: Value = json!(stats.iter().map(|(k, v)| (k.to_string(), json!(v))).collect::<serde_json::Map<String, Value>>());
    Batch {
        imports: "From Coq Require Import ZArith NArith QArith List Reals.\nFrom Interval Require Import Tactic.\nFrom CTE Require Import Base.Num Model.Aabb Model.Conv3 Model.Conv3Cert.".into(),
        case_ty: "c03case".into(),
        agree: "agree_C03".into(),
        cases,
        impl_findings: vec![],
        rule: "projects = the shipped .ctehexml projects + variants with the building deviation set to an exact-trigonometry angle (multiples of 90, 3-4-5, 5-12-13, 7-24-25 triangles) or a random tenth of a degree, spaces offset within the building (in plan and in height), spaces turned within the building, rectangular shades re-tilted (0, 90, 180 and 3-4-5 angles) and re-oriented, ceilings taken from the space outline given an azimuth of their own; per converted project: every wall on an edge of its space outline (4 corners through WallGeom::to_global_coords_matrix + outward normal), every floor / ceiling taken from the outline, every wall / roof given by its own polygon (all corners), every wall / slab area, every window (offset, size, setback), every rectangular shade (4 corners) and every shade given by vertices; per shipped project the same project with its deviation increased by an exact angle: positions, azimuths, areas, U-values, K, n50, volumes. Angles that are not exact carry an interval certificate that the (cos, sin) pair is right to 1e-7. non-trivial = the building is turned or the space offset".into(),
        stats: json!({"projects": projects.len(), "variants": nvar, "not_converted": not_converted, "cases_by_kind": st}),
    }
}
