#[doc(hidden)]
pub mod __private229 {
    #[doc(hidden)]
    pub use crate::private::*;
}
use serde_core::__private229 as serde_core_private;
